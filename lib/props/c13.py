from props.ecfam import run_family
def run(tier, replay=None):
    return run_family("C13", tier, "upd",
      "vectors = (k, rows, N, coefficients, sources, update order incl. reversed/permuted/applied-twice); expected parity after EVERY step = EC!Update folded by TLC "
      "(and TLC confirms a full pass equals EC!Encode); each step is replayed from the spec's pre-state for every len in 0..N (same len/placement rule as C03) through "
      "ec_encode_data_update{_base,_sse,_avx,_avx2,_avx512,_avx512_gfni,_avx2_gfni, dispatched} and gf_{1..6}vect_mad_<isa>; compared: parity bytes, canaries, source unchanged, no fault; plus gf_vect_mul{,_base,_sse,_avx} for 6 constants: every multiple of 32 up to N must return 0 with dest = EC!VectMul, other lengths must return non-zero")
