from props.ecfam import run_family
def run(tier, replay=None):
    return run_family("C03", tier, "enc",
      "vectors = (k, rows, N, coefficient matrix, sources) chosen by the driver from VERIF_SEED; expected parity = EC!Encode evaluated by TLC; "
      "each vector is replayed for every len in 0..N (every len below 320 and within 70 of N, stride 5 between in quick, every len in thorough; expected = prefix), "
      "placements {end flush against an inaccessible page, start flush, interior at offsets (all 64 offsets for len in {33,65,N-1,N})}, through "
      "ec_encode_data{_base,_sse,_avx,_avx2,_avx512,_avx512_gfni,_avx2_gfni, dispatched} and each gf_{1..6}vect_dot_prod_<isa> on a sliding row window; "
      "compared: output bytes, canaries outside the destinations, sources unchanged, no fault; distinct_nontrivial = calls with len > 0 (counted as calls minus the len=0 points)")
