"""C05 — every entry point touches only the memory the caller declared (page protection while replaying spec behaviours)."""
import os, random, zlib
from verif import *
import igz
from props import ecfam, c08, c04, c20, inflfam

def mem_rule(rule):
    return rule.startswith("C05") or "beyond-avail" in rule

def gen_deflate(tier, rng):
    scns = []
    def add(**kw):
        kw["scn"] = len(scns); scns.append(igz.scenario(**kw))
    k = 0
    inputs = [("records", 2600), ("text", 1500), ("zeros", 3000)] + ([("runs", 1800), ("random", 900), ("records", 40000), ("text", 70000)] if tier == "thorough" else [])
    for cls, n in inputs:
        inp = igz.corpus(rng, cls, n)
        for level in range(4):
            for mem in (1, 2):
                # refill-before-drain around pending flushes: chunk with FULL/SYNC flush and too little output, then more input
                for ao in ((1, 20, 33, 200) if tier == "quick" else (1, 5, 20, 33, 64, 200, 500)):
                    for f in (2, 1):
                        calls = [[n // 3, ao, f, 0]] + [[7, ao2, f2, 0] for ao2, f2 in ((33, 0), (31, 0), (256, 0), (16, 2), (31, 0), (7, 0), (8, 2), (64, 1))] + [[n, 1 << 20, 0, 0]] + [[97, 50, 0, 1]] * 40
                        add(api="deflate", inp=inp, level=level, wrap=k % 5, lbuf=[0, 3][k % 2], mem=mem, prefill=k % 3, calls=calls, tail_ai=300, tail_ao=1 << 16, cap=20000,
                            meta={"family": "pending-flush-refill"}); k += 1
                # output space 0..24 at every step (8-byte slop stores of the bit buffer)
                for ao in range(0, 25):
                    if tier == "quick" and (ao + k) % 5: continue
                    add(api="deflate", inp=inp, level=level, wrap=k % 5, lbuf=0, mem=mem, calls=[[n // 4 + 1, ao, [0, 1, 2][ao % 3], 1]] * 12, tail_ai=n, tail_ao=max(ao, 1), cap=60000, meta={"family": "tiny-output"}); k += 1
                # chunk sizes around the look-ahead / history sizes, each chunk in its own mapping
                for chunk in (1, 31, 288, 289, 320, 4096, 32768, 32769):
                    if (chunk > n and chunk != 32768) or (chunk == 1 and n > 2000) or (tier == "quick" and (k + chunk) % 2): continue
                    add(api="deflate", inp=inp, level=level, wrap=k % 5, lbuf=[0, 1, 3][k % 3], mem=mem, tail_ai=chunk, tail_ao=[1 << 16, 100][k % 2], cap=200000, meta={"family": "chunked"}); k += 1
    # one-shot compression: the input's last byte and the output's last byte directly before inaccessible pages
    for cls, n in [("zeros", 8), ("zeros", 300), ("ff", 4096), ("ff", 9000), ("text", 700), ("random", 300), ("runs", 5000), ("records", 3000), ("empty", 0), ("zeros", 70000)]:
        inp = igz.corpus(rng, cls, n)
        for level in range(4):
            for wrap in (0, 1, 3):
                for extra in (0, 1, 7, 8, 9, 300):
                    if tier == "quick" and (k + extra) % 3: k += 1; continue
                    k += 1
                    bound = n + 5 * max(1, (n + 65534) // 65535) + 18
                    add(api="deflate_stateless", inp=inp, level=level, wrap=wrap, lbuf=[3, 0, 5][k % 3] if level == 1 else [3, 0][k % 2], calls=[[n, bound + extra, [0, 2][k % 2], 1]],
                        meta={"family": "oneshot-guarded"})
    # a level buffer that does not start on an aligned address (no alignment is documented for level_buf): streaming with full flushes (the
    # match history is re-initialised in the middle of the stream) and several one-shot FULL_FLUSH pieces on one context
    for cls, n in [("text", 6000), ("records", 30000)]:
        inp = igz.corpus(rng, cls, n)
        for level in range(4):
            for lb in (7, 8, 9, 10):
                add(api="deflate", inp=inp, level=level, wrap=[0, 1, 3][(level + lb) % 3], lbuf=lb, mem=(level + lb) % 3, prefill=lb % 3,
                    calls=[[n // 3, 1 << 17, 2, 0], [n // 3, 1 << 17, [2, 1, 0][lb % 3], 0], [n, 1 << 17, 0, 1]], tail_ai=n, tail_ao=1 << 17, cap=60, meta={"family": "unaligned-level-buffer"})
    # incompressible input a little larger than the compressor's internal buffer (65824 bytes) in ONE call with a flush and only a few
    # hundred bytes of output room, then more input: the first block is emitted as stored blocks whose tail has to wait in the internal buffer
    # while the wrapper header still has to come out of the same output room
    BUF = 65824
    for level in (1, 2, 3):
        for wrap in (1, 3, 0):
            for ao in ((15, 20, 64, 327) if tier == "quick" else (15, 16, 17, 20, 33, 64, 100, 200, 300, 327, 328, 400)):
                for d in ((10, 12, 14) if tier == "quick" else (0, 5, 9, 10, 11, 12, 13, 14, 15, 20)):
                    n1 = BUF + ao - d
                    inp = igz.corpus(rng, "random", n1 + 45000)
                    add(api="deflate", inp=inp, level=level, wrap=wrap, lbuf=3, mem=[0, 1][(ao + d) % 2], prefill=0,
                        calls=[[n1, ao, [1, 2][(ao + d) % 2], 0], [45000, 1 << 17, 0, 0], [0, 1 << 17, 0, 1]], tail_ai=len(inp), tail_ao=1 << 17, cap=60, meta={"family": "stored-tail-in-internal-buffer"})
    # EVERY input length over more than one fill of the smallest level buffer's token buffer, incompressible data (one token per byte or two), end of
    # stream in the same call: the finish kernels emit the last bytes as literals and the end-of-block token behind them; the level buffer ends
    # directly before an inaccessible page
    rnd = igz.corpus(rng, "random", 7100)
    for n in (range(1500, 3500) if tier == "quick" else range(1, 4200)):
        for level in ((1, 2, 3) if n % 2 == 0 else (1, 2)):
            add(api="deflate", inp=rnd[:n], level=level, wrap=0, lbuf=0, mem=1, calls=[[n, n + 200, [0, 1, 2][n % 3], 1]], tail_ao=1 << 16, cap=40, meta={"family": "every-length-minimal-level-buffer", "nodecode": n % 64 != 0})
            if n % 24 == 0:
                add(api="deflate_stateless", inp=rnd[:n], level=level, wrap=0, lbuf=0, mem=1, calls=[[n, n + 200, 0, 1]], meta={"family": "every-length-minimal-level-buffer"})
    # incompressible input given completely with end_of_stream and only 1-12 bytes of output room: the stored block's header goes through the
    # staging buffer, and the input chunk is unmapped as soon as it is consumed - the block body must come from the library's own copy
    for n in (300, 2000, 9000):
        rn = igz.corpus(rng, "random", n)
        for level in (1, 2, 3, 0):
            for K in range(1, 13):
                if tier == "quick" and (K + level + n) % 2 and K > 5: continue
                add(api="deflate", inp=rn, level=level, wrap=[0, 1, 3][K % 3], lbuf=[3, 0][K % 2], mem=1, calls=[[n, K, 0, 1]], tail_ao=1 << 16, cap=60, meta={"family": "stored-block-behind-tiny-first-output"})
    return scns

def queued_lookahead_family(tier, rng, wd, first):
    """Level 3 turns input into match tokens ahead of the block being written.  Incompressible data up to the point where the token buffer
    fills (learnt from a probe run: the length of the first stored block), then zeros, so that the tokens queued for the NEXT block end in a
    long match; the first call's output room is swept around (block length - internal buffer size), where the stored block is still admitted
    and its tail waits in the internal buffer next to the queued look-ahead."""
    BUF = 65824
    probes = []
    rnd = igz.corpus(rng, "random", 300000)
    for lb in ((3, 0, 2) if tier == "quick" else (0, 1, 2, 3, 4)):
        probes.append(igz.scenario(len(probes), "deflate", rnd, level=3, wrap=0, lbuf=lb, calls=[[len(rnd), 1 << 19, 0, 1]], tail_ao=1 << 19, meta={"family": "probe"}))
    recs, summ, by = igz.merge(probes, igz.run_harness(probes, wd, "c05probe"))
    out, cands = [], []
    for pr in probes:
        o = [b for c in by[pr["scn"]]["calls"] for b in c["out"]]
        x, pos = 0, 0
        while pos + 5 <= len(o) and (o[pos] & 6) == 0:           # stored sub-blocks of the first deflate block: a short one ends it
            ln = o[pos + 1] | (o[pos + 2] << 8); x += ln; pos += 5 + ln
            if ln < 65535: break
        if x < BUF: continue
        for zfrom in (x, x - 1960):
            inp = rnd[:zfrom] + [0] * (x + 28000 - zfrom)
            cands.append((pr["lbuf"], inp, x))
    # second probe: how much input the library has taken when that block is closed (level 3 has by then queued tokens for the next block)
    probes2 = [igz.scenario(i, "deflate", inp, level=3, wrap=0, lbuf=lb, calls=[[len(inp), x + 5 * ((x + 65534) // 65535) - BUF + 5000, 0, 0], [0, 1 << 18, 0, 1]], tail_ao=1 << 18, cap=60, meta={"family": "probe"})
               for i, (lb, inp, x) in enumerate(cands)]
    recs, summ, by = igz.merge(probes2, igz.run_harness(probes2, wd, "c05probe2")) if probes2 else (None, None, {})
    for pr, (lb, inp, x) in zip(probes2, cands):
        cl = by[pr["scn"]]["calls"]
        if not cl or not cl[0]["st"].endswith("TYPE0_BODY"): continue
        base = cl[0]["c"] + 5 * ((x + 65534) // 65535) - BUF
        for j in range(-320, 16, 4 if tier == "quick" else 2):
            out.append(igz.scenario(first + len(out), "deflate", inp, level=3, wrap=0, lbuf=lb, mem=1, calls=[[len(inp), base + j, 0, 0], [0, 1 << 18, 0, 1]], tail_ao=1 << 18, cap=60,
                                    meta={"family": "level3-look-ahead-queued-behind-a-stored-block", "nodecode": j % 32 != 0}))
    return out

def gen_inflate(tier, rng):
    import defgen
    scns = []
    k = 0
    # EVERY output size for streams made of (literal, literal, maximal-length match): the fast decode paths rely on slop
    # constants; the output buffer ends directly before an inaccessible page
    for rep in range(2 if tier == "quick" else 8):
        st = defgen.maxlen_stream(rng, reps=5 if tier == "quick" else 9)
        n = len(zlib.decompressobj(-15).decompress(st))
        for cpu in inflfam.KERNEL_CPUS:
            for ao in range(0, n + 2):
                scns.append(igz.scenario(len(scns), "inflate_stateless", list(st), wrap=0, calls=[[len(st), ao, 0, 0]], mem=1,
                                         meta={"family": "inflate-every-output-size", "cpu": cpu, "complete_supply": False}))
            for ao in (list(range(1, 40)) + [255, 256, 257, 258, 259, 272, 273, 274, 275, 300]):
                scns.append(igz.scenario(len(scns), "inflate", list(st), wrap=0, tail_ai=1 << 16, tail_ao=ao, cap=100000, mem=1, meta={"family": "inflate-output-chunks", "cpu": cpu}))
    for cls, n in [("text", 4000), ("records", 9000), ("random", 1000), ("zeros", 70000)]:
        d = bytes(igz.corpus(rng, cls, n))
        for mode, st in ((0, zlib.compress(d, 6)[2:-4]), (1, inflfam.wrap_stream(1, zlib.compress(d, 9)[2:-4], d)), (3, zlib.compress(d, 1))):
            for a, b in ((1, 1 << 16), (2, 1), (1 << 16, 1), (7, 7), (300, 31), (1 << 16, 1 << 16), (33, 65536)):
                if (len(st) > 20000 or n > 10000) and b < 30: continue
                for mem in (1, 2):
                    scns.append(igz.scenario(len(scns), "inflate", list(st), wrap=mode, tail_ai=a, tail_ao=b, cap=400000, mem=mem, prefill=k % 3, meta={"family": "inflate-chunked", "cpu": inflfam.KERNEL_CPUS[k % 3]})); k += 1
            scns.append(igz.scenario(len(scns), "inflate_stateless", list(st), wrap=mode, calls=[[len(st), n, 0, 0]], mem=1, meta={"family": "inflate-oneshot-exact", "cpu": "host"}))
            for short in (1, 7, 8, 9, 100):
                scns.append(igz.scenario(len(scns), "inflate_stateless", list(st), wrap=mode, calls=[[len(st), max(0, n - short), 0, 0]], mem=1,
                                         meta={"family": "inflate-oneshot-short-output", "cpu": inflfam.KERNEL_CPUS[k % 3], "complete_supply": False})); k += 1
    return scns

def run(tier, replay=None):
    v = Verdict("C05", tier)
    rng = random.Random(seed() * 65539 % (1 << 31) + 5)
    wd = workdir("c05")
    # the design-level contract: Memory.tla holds; its 'pointer kept into a consumed chunk' variant must not (sanity of the model)
    m1 = tlc("mc/MCMemory", workers=4, timeout=300)
    m2 = tlc("mc/MCMemoryStale", workers=4, timeout=300, allow_violation=True)
    if m2["ok"]: raise Infra("Memory.tla: the KeepStale variant no longer violates NoFault: the model lost its meaning")
    # the byte budget of the internal buffer when a stored block is admitted although the output cannot take all of it (spec/DeflateBuffer.tla):
    # the repaired arithmetic keeps both invariants; without the wrapper-header reserve BufferFits fails (defect 22), without the look-ahead
    # reserve LookAheadBuffered fails (defect 30) - the scenarios TLC finds are the ones the two families below drive through the library
    db = {var: tlc_cached("mc/MCDeflateBuffer", cfg="MCDeflateBuffer_%s.cfg" % var, wd=wd, workers=2, timeout=300, allow_violation=var in ("orig_fits", "hdronly")) for var in ("fixed", "hdronly_fits", "orig_fits", "hdronly")}
    if not (db["fixed"]["ok"] and db["hdronly_fits"]["ok"]): raise Infra("DeflateBuffer.tla: the repaired budget violates its invariants")
    if db["orig_fits"]["ok"] or db["hdronly"]["ok"]: raise Infra("DeflateBuffer.tla: an unrepaired variant no longer violates its invariant: the model lost its meaning")
    parts = {}
    tm = {"t": time.time()}
    def lap(name):
        tm[name] = round(time.time() - tm["t"], 1); tm["t"] = time.time()
    if not replay:
        parts["ec_encode"] = ecfam.run_family("C05", tier, "enc", "", v=v, memory_only=True)
        parts["ec_update"] = ecfam.run_family("C05", tier, "upd", "", v=v, memory_only=True)
        parts["raid"] = c08.run(tier, v=v, memory_only=True)
        parts["crc"] = c04.run(tier, v=v, memory_only=True)
        parts["mem_zero"] = c20.run(tier, v=v, memory_only=True)
        # the remaining data-plane entry points: histogram collectors (every variant x 9 input patterns x every length), ec_init_tables, generator matrices, matrix inversion
        hm = build_harness("h_misc", ["h_misc.c"]); mo = os.path.join(wd, "misc.ndjson")
        sh([hm, mo, "3300" if tier == "thorough" else "1300"], timeout=3000)
        mc_, mf_ = 0, 0
        for x in read_ndjson(mo):
            mc_ += x["calls"]; mf_ += x["faults"]
            if x["faults"] or x.get("scribbles"):
                v.violation("%s:%s" % (x["fn"], "fault" if x["faults"] else "write-outside-destination"),
                            "%s: %d faults, %d writes outside the destination in %d guarded calls; first failing case (%s) = %s" % (x["fn"], x["faults"], x.get("scribbles", 0), x["calls"], x["what"], x["bad"]), {"record": x})
        parts["histogram_tables_matrices"] = {"calls": mc_, "faults": mf_}
        lap("data_plane_and_misc")
    if replay:
        rp = json.load(open(replay))["replay"]
        if "scenario" not in rp: raise Infra("replay of data-plane findings: re-run the owning check (C03/C04/C08/C13/C20) with the recorded seed")
        dsc, isc = ([rp["scenario"]], []) if rp["scenario"]["api"] in (0, 1) else ([], [rp["scenario"]])
    else:
        dsc, isc = gen_deflate(tier, rng), gen_inflate(tier, rng)
        dsc += queued_lookahead_family(tier, rng, wd, len(dsc))
    calls = 0
    if dsc:
        tf = igz.run_harness(dsc, wd, "defl")
        recs, summ, by = igz.merge(dsc, tf)
        res, _ = igz.judge("trace/TraceDeflate", recs, wd, "c05d", shards=14)
        igz.report(v, dsc, res, by, prefix="deflate:", rule_filter=mem_rule)
        calls += summ.get("calls", 0)
        lap("deflate_scenarios")
    if isc:
        res2, by2, c2, _ = inflfam.run_and_judge(v, [], wd, "none") if False else (None, None, 0, 0)
        vv = Verdict("C05", tier)      # collect, then keep only memory rules
        res2, by2, c2, _ = inflfam.run_and_judge(vv, isc, wd, "c05i")
        for key, desc, rp in vv.violations:
            if mem_rule(key): v.violation("inflate:" + key, desc, rp)
        calls += c2
    lap("inflate_scenarios")
    fam = {}
    for s in dsc + isc: fam[s["meta"]["family"]] = fam.get(s["meta"]["family"], 0) + 1
    dp_calls = sum(p["calls"] for p in parts.values())
    cov = {"evaluations": dp_calls + calls, "distinct_nontrivial": len(dsc) + len(isc) + len(parts), "data_plane_guarded_calls": dp_calls, "streaming_calls": calls,
           "streaming_scenarios": fam, "part_wall_s": {k_: v_ for k_, v_ in tm.items() if k_ != "t"}, "data_plane": parts, "model": {"module": "spec/Memory.tla", "states": m1["distinct"], "stale_variant_violates": True},
           "buffer_budget_model": {"module": "spec/DeflateBuffer.tla", "repaired_distinct_states": db["fixed"]["distinct"], "without_header_reserve_BufferFits_fails": True, "without_lookahead_reserve_LookAheadBuffered_fails": True},
           "rule": "every replay runs with each buffer in its own mapping inside a sparse PROT_NONE arena (>= 1 MiB inaccessible on both sides): data-plane entry points (EC encode/dot-product/update/mad/mul, RAID gen/check, all CRC/Adler variants, zero-detect) for every len 0..N with the last byte "
                   "directly before and the first byte directly after an inaccessible page and canaries; streaming deflate/inflate with every input chunk in an exact-size mapping that is unmapped (or recycled and scribbled) the moment it is consumed, the context directly after an inaccessible page, "
                   "output flush against one: pending FULL/SYNC flush + refill-before-drain schedules, avail_out 0..24, chunk sizes around look-ahead/history, minimal level buffers, one-shot inflate with exact and short output; a SIGSEGV/SIGBUS or a touched canary is a violation. "
                   "Memory.tla states the footprint/lifetime contract (model-checked; the variant that keeps a pointer into a consumed chunk violates it)",
           "samples": [igz.describe(dsc[0])] if dsc else [igz.describe(isc[0])]}
    cleanup(wd)
    return v.finish("exploration", cov, ["detection is by page protection at buffer edges and canaries: an out-of-footprint access that stays inside other live declared memory is not observable",
                                         "the spec contributes footprints, lifetimes and schedules, not the detection"])
