"""C10 — output-space contract and termination (one-shot avail_out sweeps, invalid parameters, tiny output chunks)."""
import os, random
from verif import *
import igz

def bound(n, wrap):
    return n + 5 * max(1, (n + 65534) // 65535) + {1: 10, 3: 2}.get(wrap, 0) + {1: 8, 2: 8, 3: 4, 4: 4}.get(wrap, 0)

def gen(tier, rng):
    scns = []
    def add(**kw):
        kw["scn"] = len(scns); scns.append(igz.scenario(**kw))
    smalls = [("empty", 0), ("random", 1), ("random", 37), ("random", 300), ("text", 200), ("zeros", 300), ("runs", 280)]
    k = 0
    for cls, n in smalls:
        inp = igz.corpus(rng, cls, n)
        for level in range(4):
            for wrap in range(5):
                if tier == "quick" and (k + level + wrap) % 4 != 0:
                    k += 1; continue
                k += 1
                b = bound(n, wrap)
                flush = 2 if (k % 5 == 0) else 0
                # every avail_out in 0..bound+16
                for ao in range(0, b + 17):
                    if tier == "quick" and n >= 200 and not (ao < 30 or ao > b - 45 or ao % 7 == 0): continue
                    add(api="deflate_stateless", inp=inp, level=level, wrap=wrap, lbuf=[0, 3, 5][k % 3] if level == 1 else [0, 3][k % 2], calls=[[n, ao, flush, 1]],
                        meta={"family": "oneshot-sweep", "cls": cls, "bound": b})
    # large incompressible inputs around the stored-block boundary: window bound-40..bound+8
    for n in ([65535, 65536] if tier == "quick" else [65534, 65535, 65536, 131070, 131071, 70000]):
        inp = igz.corpus(rng, "random", n)
        for level, wrap in ([(0, 0), (1, 1), (3, 3)] if tier == "quick" else [(l, w) for l in range(4) for w in (0, 1, 3, 4)]):
            b = bound(n, wrap)
            for ao in range(b - 12, b + 4) if tier == "quick" else range(b - 40, b + 9):
                add(api="deflate_stateless", inp=inp, level=level, wrap=wrap, lbuf=3, calls=[[n, ao, 0, 1]], meta={"family": "oneshot-sweep-large", "cls": "random", "bound": b})
    # invalid parameters: must be refused with nothing consumed or produced
    inp = igz.corpus(rng, "text", 120)
    for api in ("deflate", "deflate_stateless"):
        for level in (4, 5, 255, 2147483647):
            for lbuf in (3, 5):
                add(api=api, inp=inp, level=level, wrap=0, lbuf=lbuf, calls=[[120, 1000, 0, 1]], cap=1, meta={"family": "invalid-level"})
        for flush in (3, 4, 65535):
            for level in (0, 1):
                add(api=api, inp=inp, level=level, wrap=0, lbuf=3, calls=[[120, 1000, flush, 1]], cap=1, meta={"family": "invalid-flush"})
        add(api=api, inp=inp, level=0, wrap=0, calls=[[120, 1000, 1, 1]], cap=1, meta={"family": "sync-flush-" + api})
        for level in (1, 2, 3):
            for lbuf in (5, 6):
                add(api=api, inp=inp, level=level, wrap=1, lbuf=lbuf, calls=[[120, 1000, 0, 1]], cap=1, meta={"family": "invalid-level-buf"})
    # streaming call with a flush request and EVERY output size: whatever is still to be written when the space runs out
    # (header, body, end-of-block, flush marker, trailer) must not spill past avail_out (the chunk ends at a guard page)
    for cls, n in [("text", 300), ("random", 90)] + ([("runs", 700), ("zeros", 300)] if tier == "thorough" else []):
        inp = igz.corpus(rng, cls, n)
        for level in range(4):
            for flush in (1, 2, 0):
                top = bound(n, 1) + 12
                for ao in range(0, top):
                    if tier == "quick" and flush == 0 and ao % 3: continue
                    add(api="deflate", inp=inp, level=level, wrap=[0, 1, 3][(level + flush) % 3], lbuf=3, table=[0, 1][ao % 2] if level == 0 else 0,
                        calls=[[n, ao, flush, 1 if flush == 0 else 0], [0, 1 << 16, flush, 1 if flush == 0 else 0]], tail_ai=n, tail_ao=1 << 16, cap=200, meta={"family": "stream-every-output-size", "cls": cls})
    # an invalid-parameter call in the MIDDLE of a stream (level 4 / 9, level buffer missing or one byte short): it must be refused with nothing
    # consumed or produced - at any point: before the first block, after a flush, with input buffered, with output pending - and the stream must go on
    for cls, n in [("text", 3000), ("records", 40000)] + ([("random", 9000), ("lowent", 70000)] if tier == "thorough" else []):
        inp = igz.corpus(rng, cls, n)
        for level in range(4):
            for kind in (1, 2, 3, 4):
                for pos in range(6):
                    step = [n // 7 + 1, 300, 20000][pos % 3]
                    calls = [[step, [1 << 16, 11, 300][(pos + kind) % 3], [0, 1, 2, 0][(pos + j) % 4], 0] for j in range(n // step + 1)]
                    at = min(len(calls) - 1, [0, 1, 2, 3, len(calls) // 2, len(calls) - 1][pos])
                    calls.insert(at, [calls[at][0], 1 << 16, calls[at][2] + 16 * kind, 0])
                    add(api="deflate", inp=inp, level=level, wrap=[0, 1, 3][(level + kind) % 3], lbuf=[0, 3][pos % 2], mem=pos % 3, calls=calls + [[0, 1 << 16, 0, 1]], tail_ai=n, tail_ao=1 << 16, cap=len(calls) + 400,
                        meta={"family": "invalid-parameters-mid-stream", "cls": cls})
    # end_of_stream is "non-zero if this is the last input buffer": values other than 1, streaming and one-shot, every level
    for cls, n in [("text", 700), ("random", 200), ("empty", 0)]:
        inp = igz.corpus(rng, cls, n)
        for level in range(4):
            for ev in (2, 255, 65535):
                add(api="deflate", inp=inp, level=level, wrap=[0, 1, 3][(level + ev) % 3], lbuf=3, calls=[[n, 1 << 16, 0, ev]], tail_ai=n, tail_ao=1 << 16, cap=60, meta={"family": "end-of-stream-value", "cls": cls})
                add(api="deflate", inp=inp, level=level, wrap=[1, 3, 0][(level + ev) % 3], lbuf=3, calls=[[n // 2, 1 << 16, [0, 1, 2][ev % 3], 0], [n, 1 << 16, 0, ev], [0, 1 << 16, 0, ev]], tail_ai=n, tail_ao=1 << 16, cap=60,
                    meta={"family": "end-of-stream-value", "cls": cls})
                add(api="deflate_stateless", inp=inp, level=level, wrap=[0, 1, 3][(level + ev) % 3], lbuf=3, calls=[[n, n * 2 + 600, [0, 2][ev % 2], ev]], meta={"family": "end-of-stream-value", "cls": cls})
    # end_of_stream announced late (the block header went out in a call with end_of_stream = 0, so the trailer has to add an empty final block):
    # the call that reaches the trailer is offered every output size
    for cls, n in [("text", 300), ("random", 150)] + ([("zeros", 400), ("records", 2000)] if tier == "thorough" else []):
        inp = igz.corpus(rng, cls, n)
        for level in range(4):
            for ao in range(0, 100):
                if tier == "quick" and level and (ao + level) % 2: continue
                add(api="deflate", inp=inp, level=level, wrap=[0, 1, 3, 2, 4][(level + ao) % 5], lbuf=3, table=[0, 1, 2][ao % 3] if level == 0 else 0, mem=ao % 3,
                    calls=[[n, [1 << 16, n // 3, 40][ao % 3], [0, 0, 1][(ao // 3) % 3], 0], [0, ao, 0, 1], [0, [1 << 16, 7, 100][ao % 3], 0, 1]], tail_ai=n, tail_ao=1 << 16, cap=300,
                    meta={"family": "late-eos-output-sweep", "cls": cls})
    # streaming termination with end_of_stream set: any sequence of non-empty output buffers
    for cls, n in [("random", 700), ("text", 900), ("empty", 0), ("zeros", 5000)] + ([("random", 70000), ("records", 9000)] if tier == "thorough" else []):
        inp = igz.corpus(rng, cls, n)
        for level in range(4):
            for pat in ([1], [2], [3], [7], [8], [9], [16], [17], [1, 8, 2, 9], [3, 1, 1, 17]):
                if tier == "quick" and (k % 3): k += 1; continue
                k += 1
                calls = [[n, pat[i % len(pat)], 0, 1] for i in range(64)]
                add(api="deflate", inp=inp, level=level, wrap=k % 5, lbuf=3 if k % 2 else 0, calls=calls, tail_ai=n, tail_ao=pat[0], cap=bound(n, 1) * 2 + 200,
                    meta={"family": "termination", "cls": cls})
    # inputs that begin with a long run of 0x00 / 0xFF (the one-shot path writes those runs with a dedicated routine whose output-space guard is
    # arithmetic on the run length): avail_out swept from 0 to past the size actually needed
    for run, tail in ((100000, 0), (40000, 40), (4096, 50)) + (((300000, 0),) if tier == "thorough" else ()):
        for byte in (0, 255):
            inp = [byte] * run + igz.corpus(rng, "text", tail)
            top = 160 + run // 1000 + tail * 2
            for ao in range(0, top, 3 if tier == "quick" else (8 if run > 100000 else 1)):
                add(api="deflate_stateless", inp=inp, level=(ao + run) % 4, wrap=[0, 1, 3, 2, 4][ao % 5], lbuf=3, calls=[[len(inp), ao, 0, 1]], meta={"family": "oneshot-constant-run-sweep", "cls": "constant", "bound": bound(len(inp), [0, 1, 3, 2, 4][ao % 5])})
    return scns

def run(tier, replay=None):
    v = Verdict("C10", tier)
    rng = random.Random(seed() * 69621 % (1 << 31) + 10)
    wd = workdir("c10")
    scns = [json.load(open(replay))["replay"]["scenario"]] if replay else gen(tier, rng)
    tf = igz.run_harness(scns, wd, "c10")
    recs, summ, by = igz.merge(scns, tf)
    res, tw = igz.judge("trace/TraceDeflate", recs, wd, "c10", shards=14, weight=lambda r: len(r["inp"]) // 8 + 20 * len(r["calls"]) + 300)
    igz.report(v, scns, res, by)
    fam = {}
    for s in scns: fam[s["meta"]["family"]] = fam.get(s["meta"]["family"], 0) + 1
    ok_over = sum(1 for s in scns if s["meta"]["family"].startswith("oneshot") and by[s["scn"]]["calls"] and by[s["scn"]]["calls"][0]["ret"] == -1)
    cov = {"states": len(scns), "transitions": summ.get("calls", 0), "traces_validated_against_impl": len(scns), "evaluations": len(scns),
           "distinct_nontrivial": len(scns) - fam.get("invalid-level", 0), "families": fam, "oneshot_overflow_reports": ok_over,
           "state_machine_conformance": {"model": "spec/DeflateStreamOps.tla (tabulated by spec/gen/GenDeflateStream.tla)", "calls_not_in_model": igz.drift_count(res)},
           "rule": "one-shot: for each (input incl. empty/incompressible/65535*j+-1, level, wrapper, flush) every avail_out in 0..Bound+16 for small inputs (a window around Bound for large), output flush against an inaccessible page; rules S1-S4 of TraceDeflate.tla: "
                   "no write beyond avail_out, counters = pointer advances, avail_out >= Bound => COMP_OK, OK => total_out <= Bound and a complete decodable stream, otherwise STATELESS_OVERFLOW; invalid level/flush/level_buf => negative return and zero bytes consumed/produced; "
                   "streaming with end_of_stream and output chunks from {1,2,3,7,8,9,16,17,...}: END within the call cap, every call rule D1-D10; Bound(n,w)=n+5*max(1,ceil(n/65535))+hdr+trl is defined in the spec",
           "samples": [igz.describe(scns[1]), igz.describe(scns[-1])]}
    cleanup(wd)
    return v.finish("model_checking", cov, ["TLC evaluates the contract rules/decoder correctly", "documented exception: isal_deflate_stateless level 1 with NULL level_buf is valid (borrows the internal buffer)"])
