"""C15 — results depend only on arguments: reentrant, thread-safe, deterministic."""
import os, random, re
from verif import *
import igz
from props import c16, c17

def slot_checks(v):
    """model assumptions of DispatchRace.tla checked on the binary: every dispatch slot is 8-byte aligned and each resolver
    writes its slot with exactly one 8-byte store"""
    hb, ents, order = c16.build_disp()
    nm = {}
    for l in sh("nm " + hb).stdout.splitlines():
        p = l.split()
        if len(p) == 3: nm[p[2]] = int(p[0], 16)
    dis = sh("objdump -d -M intel --no-show-raw-insn " + hb).stdout
    # split into labelled chunks
    chunks, cur = {}, None
    for line in dis.splitlines():
        m = re.match(r"^[0-9a-f]+ <([^>]+)>:$", line)
        if m: cur = m.group(1); chunks[cur] = []; continue
        if cur: chunks[cur].append(line)
    n = 0
    for e in order:
        a = nm.get(e + "_dispatched")
        if a is None: continue
        n += 1
        if a % 8: v.violation("slot:%s:misaligned" % e, "%s_dispatched at 0x%x is not 8-byte aligned (a pointer store could tear)" % (e, a), {"entry": e})
        # collect the resolver body: from the X_dispatch_init label until the first ret
        body, on = [], False
        for name, lines in chunks.items():
            if name == e + "_dispatch_init": on = True
            if on:
                for ln in lines:
                    body.append(ln)
                    if re.search(r"\bret\b", ln): on = False; break
                if not on: break
        stores = [ln for ln in body if re.search(r"mov\s+(QWORD|DWORD|WORD|BYTE) PTR \[rip\+0x[0-9a-f]+\],", ln) and ("<%s_dispatched>" % e) in ln]
        if len(stores) != 1 or "QWORD" not in stores[0]:
            v.violation("slot:%s:store" % e, "resolver of %s writes its slot with %d stores (%s): DispatchRace.tla assumes one 8-byte store" % (e, len(stores), [s.strip() for s in stores][:3]), {"entry": e})
    return n

def run(tier, replay=None):
    v = Verdict("C15", tier)
    rng = random.Random(seed() * 214013 % (1 << 31) + 15)
    wd = workdir("c15")
    # (0) the race model
    m1 = tlc("mc/MCRace", workers=8, timeout=900)
    m2 = tlc("mc/MCRaceTorn", workers=2, timeout=300, allow_violation=True)
    if m2["ok"]: raise Infra("DispatchRace.tla: the torn-store variant no longer violates ExecOK")
    # (a) binary assumptions of the model
    nslots = slot_checks(v)
    # (b) no other global is written: page protection after warm-up, many threads
    so = solib()
    d = os.path.dirname(so)
    hb = os.path.join(libdir(), "h_c15")
    src = os.path.join(HARNESS, "h_c15.c")
    if not os.path.exists(hb) or os.path.getmtime(hb) < os.path.getmtime(src):
        sh("gcc -O1 -g -Wall -I%s/include -o %s %s -L%s -lisal -lpthread -ldl -Wl,-rpath,%s -Wl,-z,now" % (REPO, hb, src, d, d))
    env = {"LD_LIBRARY_PATH": d, "LD_BIND_NOW": "1"}
    runs = []
    for nt in ([16] if tier == "quick" else [2, 16, 48]):
        out = sh([hb, "mt", str(nt)], env=env, timeout=600).stdout.strip().splitlines()[-1]
        r = json.loads(out); runs.append(r)
        if r["segments"] == 0: raise Infra("could not locate libisal's writable segments")
        if r["lib_writes"]:
            v.violation("global-write-after-warmup", "the library wrote to its own data %d times after warm-up (offsets in the writable segment: %s)" % (r["lib_writes"], r["first_offsets"][:8]), r)
        if r["mismatches"]:
            v.violation("thread-result-differs-from-serial", "%d of the thread workloads returned results different from serial execution" % r["mismatches"], r)
    # (c) racing cold starts in fresh processes
    cold = 0
    for i in range(12 if tier == "quick" else 100):
        rr = sh([hb, "cold", str(rng.choice([2, 4, 8, 16, 32]))], env=env, timeout=120, check=False)
        cold += 1
        if rr.returncode != 0:
            v.violation("cold-start-crash", "racing first calls crashed (exit %d)" % rr.returncode, {"run": i}); continue
        r = json.loads(rr.stdout.strip().splitlines()[-1])
        if r["mismatches"]:
            v.violation("cold-start-result-differs-from-serial", "%d threads racing on first calls got results different from serial execution" % r["mismatches"], r)
    # (d) determinism as 2-safety: reuse histories, and pre-fills of context / level buffer
    rf = os.path.join(wd, "reuse.ndjson")
    sh([hb, "reuse", rf], env=env, timeout=300)
    obs = {x["name"]: [x["ret"]] + x["bytes"] for x in read_ndjson(rf)}
    pairs = []
    for name in sorted(obs):
        m = re.match(r"(deflate|inflate)-level(\d)-history(\d)", name)
        if m and m.group(3) != "0":
            base = "%s-level%s-history0" % (m.group(1), m.group(2))
            what = {"1": "garbage-filled context, level buffer and output before init", "2": "context reset after another stream", "3": "context re-initialised after an abandoned stream"}[m.group(3)]
            pairs.append(("%s-history-independent|%s level %s: %s" % (m.group(1), m.group(1), m.group(2), what), obs[base], obs[name], {"pair": [base, name]}))
    HIST = {"1": "garbage-filled context before init", "2": "reset after a gzip header parse abandoned inside the name", "3": "reset after a gzip header parse abandoned inside the extra field",
            "4": "reset after a stream abandoned inside a stored block", "5": "reset after a zlib stream that asked for a dictionary", "6": "reset after a complete gzip member",
            "7": "reset after an invalid stream", "8": "reset after set_dict and half a stream", "9": "reset after a gzip header split inside the comment (isal_inflate)"}
    USE = ["isal_read_gzip_header into caller buffers (name+comment) then body", "isal_read_gzip_header (all optional fields) then body", "gzip member through isal_inflate in 7-byte pieces",
           "isal_read_zlib_header then body", "raw stored block with 1-byte output", "zlib through isal_inflate", "an invalid stream (match reaching before the start of the output): error code, reported output and bytes handed over"]
    for name in sorted(obs):
        m = re.match(r"inflate-use(\d)-history(\d)", name)
        if m and m.group(2) != "0":
            base = "inflate-use%s-history0" % m.group(1)
            pairs.append(("inflate-history-independent|%s: %s" % (USE[int(m.group(1))], HIST[m.group(2)]), obs[base], obs[name], {"pair": [base, name]}))
    HH = {"1": "scratch hash table left by a call on the same data", "2": "scratch left by a call on a shifted copy of the data", "3": "scratch filled with small positions", "4": "scratch filled with ones", "5": "scratch left by a call on the same data with every 97th byte altered", "6": "scratch left by a call on the same data with every 61st byte altered"}
    for name in sorted(obs):
        m = re.match(r"histogram-size(\d)-history(\d)", name)
        if m and m.group(2) != "0":
            base = "histogram-size%s-history0" % m.group(1)
            pairs.append(("histogram-history-independent|isal_update_histogram counts (input size class %s): %s" % (m.group(1), HH[m.group(2)]), obs[base], obs[name], {"pair": [base, name]}))
    for name in sorted(obs):
        m = re.match(r"histogram-short-(\d+)-history1", name)
        if m:
            base = "histogram-short-%s-history0" % m.group(1)
            pairs.append(("histogram-history-independent|isal_update_histogram counts on a short input whose repeated sequence first occurs inside a match, scratch hash table filled with that position (30000 random inputs; this is number %s)" % m.group(1), obs[base], obs[name], {"pair": [base, name]}))
    if "histogram-prefill-first" in obs:
        others = [n2 for n2 in obs if n2.startswith("histogram-prefill-other-")]
        for n2 in others or ["histogram-prefill-first"]:
            pairs.append(("histogram-history-independent|isal_update_histogram counts with the scratch hash table filled with one position (every position of the input in turn)", obs["histogram-prefill-first"], obs[n2], {"pair": ["histogram-prefill-first", n2]}))
    # the same compression with the context at 4096 addresses: any output different from the first address's is paired with it
    for name in sorted(obs):
        m = re.match(r"address-level(\d)-mode(\d)-first", name)
        if m:
            others = [n2 for n2 in obs if n2.startswith("address-level%s-mode%s-other" % (m.group(1), m.group(2)))]
            for n2 in others or [name]:
                pairs.append(("address-independent|level %s, %s: output with the context at another address" % (m.group(1), ["one-shot", "streaming"][int(m.group(2))]), obs[name][1:], obs[n2][1:], {"pair": [name, n2]}))
    if "nulllbuf-history0" in obs and "nulllbuf-history1" in obs:
        # record = [level_buf != NULL, level_buf_size != 0, ret of the one-shot call, ret of the streaming call, low byte of total_out]; the one-shot ret is not compared
        a, b = obs["nulllbuf-history0"][1:], obs["nulllbuf-history1"][1:]
        pairs.append(("deflate-history-independent|level 1 without a level buffer: a streaming call on a fresh context vs after a one-shot call (which may borrow the context's own buffer) and isal_deflate_reset; the caller's level_buf fields",
                      a[:2] + a[3:], b[:2] + b[3:], {"pair": ["nulllbuf-history0", "nulllbuf-history1"]}))
    SH = {"1": "garbage-filled context and level buffer before init", "2": "re-initialised after a one-shot call on incompressible data (stored fallback)", "3": "re-initialised after a one-shot call on compressible data",
          "4": "re-initialised after a one-shot call on small-alphabet data", "5": "after a one-shot call that overflowed its output", "6": "after a one-shot call and isal_deflate_reset", "7": "after a one-shot call and isal_deflate_init"}
    for name in sorted(obs):
        m = re.match(r"stateless-level(\d)-lbuf(\d)-history(\d)", name)
        if m and m.group(3) != "0":
            base = "stateless-level%s-lbuf%s-history0" % (m.group(1), m.group(2))
            pairs.append(("stateless-history-independent|level %s, %s level buffer: %s" % (m.group(1), ["minimum", "default"][int(m.group(2))], SH[m.group(3)]), obs[base], obs[name], {"pair": [base, name]}))
    # pre-fill pairs through the scenario harness (context/level-buffer contents before init; different chunk memory)
    scns = []
    k = 0
    for cls, n in [("text", 2000), ("records", 4000), ("random", 600)]:
        inp = igz.corpus(rng, cls, n)
        for level in range(4):
            calls = [[rng.choice([50, 333, 1000]), rng.choice([40, 500, 1 << 16]), rng.choice([0, 0, 1, 2]), 0] for _ in range(30)]
            for prefill in (0, 1, 2):
                scns.append(igz.scenario(len(scns), "deflate", inp, level=level, wrap=[0, 1, 3][k % 3], lbuf=[0, 3][k % 2], mem=prefill, prefill=prefill, calls=calls, tail_ai=200, tail_ao=300, meta={"group": k}))
            k += 1
    # ... and of the OUTPUT buffer: one-shot and streaming compression into zero-filled, 0xFF-filled and random-filled output memory; inputs include
    # the long 0x00 / 0xFF runs that the one-shot path encodes by a dedicated routine (every length class of its run-length arithmetic)
    runs = [[0] * n for n in (1033, 2065, 4096, 5000, 20000)] + [[255] * n for n in (1300, 4097, 9000)] + [[0] * 4200 + igz.corpus(rng, "text", 300), [255] * 6000 + igz.corpus(rng, "random", 100)]
    for inp in runs + [igz.corpus(rng, "text", 3000), igz.corpus(rng, "random", 700)]:
        for level in range(4):
            for api, calls in (("deflate_stateless", [[len(inp), len(inp) + 1000, 0, 1]]), ("deflate", [[len(inp), 77, [0, 1, 2][k % 3], 1]] + [[0, 77, 0, 1]] * 400)):
                for prefill in (0, 1, 2):
                    scns.append(igz.scenario(len(scns), api, inp, level=level, wrap=[0, 1, 3][k % 3], lbuf=[0, 3][k % 2], mem=0, prefill=prefill + 256, calls=calls, tail_ai=0, tail_ao=77, cap=2000, meta={"group": k}))
                k += 1
    # ... and of the structure isal_deflate_process_dict fills in (it is an output of that call: what it held before must not matter)
    dct = igz.corpus(rng, "text", 5000)
    dinp = dct[-1500:] + igz.corpus(rng, "text", 1500) + dct[:800]
    for level in range(4):
        for prefill in (0, 1, 2):
            scns.append(igz.scenario(len(scns), "deflate", dinp, level=level, wrap=[0, 3][level % 2], lbuf=3, mem=0, prefill=prefill + 256, dictmode=2, dct=dct, calls=[[len(dinp), 1 << 16, 0, 1]], tail_ao=1 << 16, cap=50, meta={"group": k}))
        k += 1
    # ... and of the decompressor state: valid streams and streams whose code set is incomplete and whose data uses an unassigned code (what the
    # decoder's lookup tables hold for codes nobody assigned must not come from the structure's earlier contents), one-shot and streaming
    import defgen
    istreams = [defgen.make_stream(rng, ["dynamic15", "dynamic15"], fault=f_, fault_block=1) for f_ in ("use_undefined_ll", "use_undefined_dist", "use_undefined_ll", "use_undefined_dist")]
    istreams += [defgen.make_stream(rng, pl) for pl in (["dynamic"], ["fixed", "dynamic15"], ["stored", "dynamic"])]
    bw = defgen.BitWriter()       # a tiny incomplete code: 'A' = 00, end-of-block = 01, codes 10 / 11 unassigned; data: A, (11), end-of-block
    bw.bits(1, 1); bw.bits(2, 2); bw.bits(0, 5); bw.bits(0, 5); bw.bits(14, 4)
    cl = [0] * 19; cl[0] = 1; cl[2] = 2; cl[18] = 2          # code-length code: symbol 0 -> 1 bit, 2 and 18 -> 2 bits
    for sym in defgen.CL_ORDER[:18]: bw.bits(cl[sym], 3)
    clc = defgen.canon(cl)
    def put(sym, extra=None, n=0):
        bw.code(clc[sym], cl[sym])
        if extra is not None: bw.bits(extra, n)
    put(18, 65 - 11, 7); put(2); put(18, 138 - 11, 7); put(18, 256 - 66 - 138 - 11, 7); put(2); put(0)      # lengths: 65 zeros, 'A'=2, 190 zeros, EOB=2, one distance code of length 0
    bw.bits(0, 2); bw.bits(3, 2); bw.bits(2, 2)               # 'A' (00), unassigned (11), end-of-block (01 written MSB first = bits 0,1)
    istreams.append(bw.done())
    for st in istreams:
        for api, calls, ta, to in (("inflate_stateless", [[len(st), 1 << 16, 0, 0]], len(st), 1 << 16), ("inflate", [], 3, 7)):
            for prefill in (0, 1, 2):
                scns.append(igz.scenario(len(scns), api, list(st), wrap=0, calls=calls, tail_ai=ta, tail_ao=to, cap=3000, mem=0, prefill=prefill + 256, meta={"group": k}))
            k += 1
    tf = igz.run_harness(scns, wd, "prefill")
    recs, summ, by = igz.merge(scns, tf)
    def obsv(i): return [x for c in by[i]["calls"] for x in ([c["ret"], c["c"], c["p"]] + c["out"])]
    for g in range(k):
        ids = [s["scn"] for s in scns if s["meta"]["group"] == g]
        for other in ids[1:]:
            pairs.append((("inflate-prefill-independent|%s" % ["", "", "isal_inflate", "isal_inflate_stateless"][scns[ids[0]]["api"]]) if scns[ids[0]]["api"] in (2, 3) else "deflate-prefill-independent|level %d" % scns[ids[0]]["level"], obsv(ids[0]), obsv(other), {"pair": [igz.describe(scns[ids[0]]), igz.describe(scns[other])], "seed": seed()}))
    npairs = c17.equal_pairs(v, pairs, wd, "c15")
    cov = {"states": m1["distinct"], "transitions": m1["generated"], "traces_validated_against_impl": len(runs) + cold + npairs, "evaluations": len(runs) + cold + npairs,
           "distinct_nontrivial": npairs + cold, "dispatch_slots_checked": nslots, "mt_runs": runs, "cold_start_processes": cold, "determinism_pairs": npairs,
           "race_model": {"module": "spec/DispatchRace.tla", "threads": 3, "functions": 2, "distinct_states": m1["distinct"], "torn_store_variant_violates_ExecOK": True},
           "rule": "model: DispatchRace.tla (3 threads x 2 functions, all interleavings of Load/Resolve/Store/ReLoad/Exec; safety ExecOK, SlotOK, Monotone; liveness Progress; the two-half-store variant violates ExecOK); "
                   "binding: every *_dispatched slot of the built binary is 8-byte aligned and written by exactly one 8-byte store in its resolver; the shared library built from the working tree is warmed up, its writable PT_LOAD pages are made read-only, "
                   "and 16 (2/16/48) threads run CRC/Adler/EC/RAID/zero-detect/deflate/inflate on independent contexts: any write into library data and any result different from serial execution is a violation; fresh processes race first calls from 2-32 threads; "
                   "determinism pairs judged by TLC (TraceEqual.tla): garbage pre-fills of context/level buffer/output, reset after another stream, init after an abandoned stream, different chunk memory - outputs and per-call results must be identical",
           "samples": [runs[0], {"pair": pairs[0][0]}]}
    cleanup(wd)
    return v.finish("model_checking", cov, ["'forall interleavings' is exhaustive only in the model; for the code it rests on: no writable global besides the idempotent slots (observed under page protection), atomic aligned slot stores (checked on the binary)",
                                              "x86-64 aligned 8-byte stores are atomic"])
