"""C07 — streaming results do not depend on slicing or call order (contract rules per call; round trip / equality with the reference decode)."""
import os, random, zlib, gzip, io
from verif import *
import igz

SIZES = [0, 1, 2, 7, 8, 9, 15, 16, 17, 31, 32, 33, 255, 256, 257, 1000]

def deflate_schedules(rng, tier, n):
    """families of call schedules [ai, ao, flush, eos] for an input of n bytes"""
    fams = []
    # (i) every single split point of the input (two chunks), output plentiful
    pts = range(0, n + 1) if n <= 40 else sorted(set([0, 1, 2, n // 3, n // 2, n - 2, n - 1, n] + [rng.randrange(n + 1) for _ in range(6)]))
    for k in pts:
        fams.append(("in-split", [[k, 1 << 16, 0, 0], [n - k, 1 << 16, 0, 1]]))
    # (ii) pairs (in chunk, out chunk)
    for a in ([1, 2, 7, 9, 16, 33, 257] if tier == "quick" else SIZES[1:]):
        for b in ([1, 2, 7, 8, 9, 17, 256] if tier == "quick" else SIZES[1:]):
            if tier == "quick" and (a * 31 + b * 17 + n) % 3 != 0: continue
            fams.append(("pair", [[a, b, 0, 1]] * 3 + [[a, b, 0, 1]] * 0, a, b))
    # (iii) random with flush changes and late EOS
    for _ in range(6 if tier == "quick" else 30):
        calls = []
        left = n
        while left > 0 or rng.random() < 0.3:
            a = rng.choice(SIZES); left -= min(a, left)
            calls.append([a, rng.choice(SIZES[1:] + [4096]), rng.choice([0, 0, 0, 1, 2]), 1 if rng.random() < 0.3 else 0])
            if len(calls) > 400: break
        calls += [[0, rng.choice([1, 8, 64, 4096]), rng.choice([0, 1, 2]), 0] for _ in range(rng.randrange(3))]   # empty calls before EOS is announced
        fams.append(("random", calls))
    # (iv) refill before drain: tiny output while new input keeps coming
    for ao in (1, 3, 8, 20):
        fams.append(("refill-before-drain", [[max(1, n // 5), ao, f, 0] for f in (0, 2, 1, 0, 2, 0, 1, 0)]))
    return fams

def gen_deflate(tier, rng):
    scns = []
    inputs = [("text", 300), ("runs", 700), ("random", 40), ("records", 1200), ("lowent", 64), ("empty", 0), ("zeros", 2600)]
    if tier == "thorough": inputs += [("text", 5000), ("periodic", 9000), ("random", 3000), ("records", 20000)]
    k = 0
    for cls, n in inputs:
        inp = igz.corpus(rng, cls, n)
        for fam in deflate_schedules(rng, tier, n):
            name, calls = fam[0], fam[1]
            level = [0, 1, 3, 2][k % 4] if tier == "thorough" else [0, 1, 3][k % 3]
            wrap = [0, 1, 3, 2, 4][(k // 3) % 5] if tier == "thorough" else [0, 1, 3][(k // 3) % 3]
            mem = [0, 1, 2][(k // 2) % 3]
            tail = (1 << 20, 1 << 20)
            if name == "pair": tail = (fam[2], fam[3])
            scns.append(igz.scenario(len(scns), "deflate", inp, level=level, wrap=wrap, lbuf=[0, 3][k % 2], mem=mem, prefill=k % 3, calls=calls,
                                     tail_ai=tail[0], tail_ao=tail[1], cap=max(40000, 5 * n + 4000), meta={"family": name, "cls": cls}))      # (1,1)-byte buffers need about n + output calls
            k += 1
    # (v) first output chunk swept over every small size (so that every header / stored-block header / marker ends up
    #     staged in the 16-byte temporary buffer at every split), consumed input recycled or unmapped at once
    for cls, n in [("random", 700), ("random", 3000), ("text", 600)] + ([("random", 60000), ("records", 5000)] if tier == "thorough" else []):
        inp = igz.corpus(rng, cls, n)
        for level in range(4):
            for ao in range(1, 49):
                for eos in ((k % 2,) if tier == "quick" else (0, 1)):
                    for table in ((0, 1, 2) if level == 0 else (0,)):     # level 0: default, static (zero-length stored header) and custom tables
                        scns.append(igz.scenario(len(scns), "deflate", inp, level=level, wrap=[1, 0, 3, 2, 4][k % 5], lbuf=[3, 0][k % 2], mem=[1, 2][(k // 2) % 2], prefill=k % 3, table=table,
                                                 calls=[[n, ao, 0, eos]] if table == 0 else [[n // 2, ao, [0, 1, 2][k % 3], 0], [n, 1 << 17, 0, eos]],
                                                 tail_ai=n, tail_ao=1 << 17, cap=2000, meta={"family": "first-output-sweep", "cls": cls}))
                        k += 1
    # (v2) a small first piece that is only buffered, then a piece much larger than the internal buffer in ONE call: the compressor starts from
    #      its internal buffer and has to switch over to the caller's buffer in the middle of the call
    for cls, n in [("records", 110000), ("lowent", 90000)] + ([("text", 150000), ("random", 140000)] if tier == "thorough" else []):
        inp = igz.corpus(rng, cls, n)
        for level in range(4):
            for first in (1, 100, 5000):
                if tier == "quick" and (level + first) % 2: continue
                scns.append(igz.scenario(len(scns), "deflate", inp, level=level, wrap=[0, 1, 3][k % 3], lbuf=[3, 0][k % 2], mem=[0, 1, 2][k % 3], prefill=k % 3,
                                         calls=[[first, 1 << 18, 0, 0], [n, 1 << 18, [0, 1, 2][k % 3], 1]], tail_ai=n, tail_ao=1 << 18, cap=400, meta={"family": "small-then-huge", "cls": cls}))
                k += 1
    # (v2b) large chunks (more than a window each) in SEPARATE memory, no flush, data repeating at a distance just under the window: when the
    #       compressor goes back from its internal buffer to the caller's chunk, what lies in front of the new chunk is not the previous chunk
    for period in (32700, 32750, 32500) if tier == "quick" else (32700, 32750, 32500, 32767, 32768 - 288, 30000):
        basep = igz.corpus(rng, "random", period)
        inp = (basep * 5)[:135000]
        for level in range(4):
            for mem in (3, 1, 2):          # 3: every chunk begins directly behind an inaccessible page
                if tier == "quick" and (level + mem + period) % 2 and mem != 3: continue
                scns.append(igz.scenario(len(scns), "deflate", inp, level=level, wrap=[0, 1, 3][(level + mem) % 3], lbuf=[3, 0][mem % 2], mem=mem, prefill=mem % 3,
                                         calls=[[40000, 1 << 18, 0, 0], [45000, 1 << 18, 0, 0], [50000, 1 << 18, 0, 1]], tail_ai=len(inp), tail_ao=1 << 18, cap=400, meta={"family": "window-sized-chunks-in-separate-memory", "cls": "periodic"}))
    # (v3) zlib wrapper with a call boundary exactly where the running Adler-32 low half is 0 or 65520 (the compressor carries B|(A-1) between calls)
    from props import c11
    for name, d in c11.adler_edge_inputs(rng):
        if len(d) > 3000: continue
        pcut = len(d); d2 = list(d) + igz.corpus(rng, "text", 500)
        for level in range(4):
            for cutpos in (pcut, pcut + 1):
                scns.append(igz.scenario(len(scns), "deflate", d2, level=level, wrap=[3, 4][level % 2], lbuf=3, mem=level % 3, calls=[[cutpos, 1 << 16, [1, 2, 0][level % 3], 0], [len(d2) - cutpos, 1 << 16, 0, 1]], tail_ao=1 << 16, cap=200,
                                         meta={"family": "input-boundary-at-adler-edge", "cls": name}))
    # (vi) model-guided schedules: the harness walks the DeflateStream model's (control state, environment action) keys, always taking the
    #      least-visited (room class, hand over input, flush, end_of_stream) choice from the state the real stream is in (h_igzip.c adapt_choose)
    reps = 3 if tier == "quick" else 12
    for r in range(reps):
        for cls, n in [("random", 900), ("text", 2500), ("records", 24000), ("zeros", 3000), ("random", 9000), ("lowent", 700), ("text", 70), ("periodic", 40000)]:
            inp = igz.corpus(rng, cls, n)
            for level in range(4):
                scns.append(igz.scenario(len(scns), "deflate", inp, level=level, wrap=[1, 0, 3, 2, 4][k % 5], lbuf=[3, 0][k % 2], mem=[0, 1, 2][k % 3], prefill=k % 3,
                                         table=[0, 0, 1, 2][k % 4] if level == 0 else 0, calls=[], tail_ai=n, tail_ao=1 << 16, cap=1200,
                                         meta={"family": "model-guided", "cls": cls, "adaptive": 1 + rng.randrange(1 << 20)}))
                k += 1
    return scns

def streams(rng, tier):
    """(wrap_flag, stream bytes) made by foreign encoders and by ISA-L's own one-shot compressor is added by the caller"""
    out = []
    def raw(d, l=6, st=0, wb=-15):
        c = zlib.compressobj(l, zlib.DEFLATED, wb, 9, st); return c.compress(d) + c.flush()
    def gz(d, name=None):
        b = io.BytesIO()
        with gzip.GzipFile(filename=name or "", mode="wb", fileobj=b, mtime=77) as g: g.write(d)
        return b.getvalue()
    datas = [bytes(igz.corpus(rng, "text", 400)), bytes(igz.corpus(rng, "runs", 900)), bytes(igz.corpus(rng, "random", 70)), b"", bytes(igz.corpus(rng, "records", 3000))]
    if tier == "thorough": datas += [bytes(igz.corpus(rng, "text", 20000)), bytes(igz.corpus(rng, "periodic", 70000))]
    for i, d in enumerate(datas):
        out.append((0, raw(d, [1, 6, 9][i % 3], [0, zlib.Z_FIXED, zlib.Z_HUFFMAN_ONLY, zlib.Z_RLE][i % 4])))
        out.append((1, gz(d, "file%d.txt" % i if i % 2 else None)))
        out.append((3, zlib.compress(d, 6)))
        out.append((5, zlib.compress(d, 1)[2:]))
        z = gz(d); out.append((6, z[10:]))
        out.append((2, raw(d, 6))); out.append((4, raw(d, 9)))
    # gzip members whose header carries several optional fields (FEXTRA / FNAME / FCOMMENT / FHCRC in every combination of
    # two or more): the header is then split across calls at every position by the in-split family
    from props import c19
    d = datas[0]
    for mask in (8, 6, 10, 12, 3, 5, 9, 7, 14, 15, 13, 11):
        f = c19.fields(rng, mask | 32); f["extra"] = f["extra"][:20]; f["comment"] = f["comment"][:12]; f["name"] = f["name"][:9]
        import struct
        out.append((1, c19.gz_bytes(f) + raw(d, 6) + struct.pack("<II", zlib.crc32(d) & 0xffffffff, len(d))))
    return out

def gen_inflate(tier, rng):
    scns = []
    k = 0
    # zlib streams that announce a preset dictionary (FDICT): the caller supplies it when ISAL_NEED_DICT is returned
    dct = igz.corpus(rng, "text", 700)
    data = bytes(dct[200:500] + igz.corpus(rng, "text", 300) + dct[-100:])
    c = zlib.compressobj(6, zlib.DEFLATED, 15, 9, 0, bytes(dct)); st = c.compress(data) + c.flush()
    for kk in list(range(1, 12)) + [len(st) // 2, len(st) - 3]:
        scns.append(igz.scenario(len(scns), "inflate", list(st), wrap=3, dictmode=2, dct=dct, calls=[[kk, 1 << 16, 0, 0], [len(st) - kk, 1 << 16, 0, 0]], mem=k % 3, meta={"family": "fdict-split"})); k += 1
    scns.append(igz.scenario(len(scns), "inflate", list(st), wrap=3, dictmode=2, dct=dct, tail_ai=1, tail_ao=1 << 16, cap=100000, meta={"family": "fdict-1byte"}))
    for wrap, st in streams(rng, tier):
        n = len(st)
        # one-shot reference run and the streaming schedules
        scns.append(igz.scenario(len(scns), "inflate_stateless", list(st), wrap=wrap, calls=[[n, 1 << 20, 0, 0]], meta={"family": "one-shot"}))
        pts = range(0, n + 1) if n <= 48 else sorted(set([1, 2, 3, 9, 10, 11, 12, 13, n // 2, n - 9, n - 8, n - 5, n - 4, n - 1] + [rng.randrange(1, n) for _ in range(4)]))
        for kk in pts:
            if 0 <= kk <= n:
                scns.append(igz.scenario(len(scns), "inflate", list(st), wrap=wrap, calls=[[kk, 1 << 16, 0, 0], [n - kk, 1 << 16, 0, 0]], mem=k % 3, prefill=k % 3, meta={"family": "in-split", "salt": k % 6})); k += 1
        for a, b in [(1, 1), (1, 1 << 16), (1 << 16, 1), (2, 7), (7, 2), (3, 257), (257, 3), (9, 8), (8, 9)]:
            if n > 8000 and min(a, b) < 3: continue          # tiny pieces on the long streams: hundreds of thousands of calls each, nothing new
            scns.append(igz.scenario(len(scns), "inflate", list(st), wrap=wrap, calls=[], tail_ai=a, tail_ao=b, cap=200000, mem=k % 3, prefill=k % 3, meta={"family": "pair", "salt": k % 6})); k += 1
        for _ in range(2 if tier == "quick" else 8):
            calls = [[rng.choice(SIZES), rng.choice(SIZES[1:]), 0, 0] for _ in range(60)]
            scns.append(igz.scenario(len(scns), "inflate", list(st), wrap=wrap, calls=calls, tail_ai=rng.choice([1, 5, 64]), tail_ao=rng.choice([1, 9, 300]), cap=200000, mem=k % 3, meta={"family": "random", "salt": k % 6})); k += 1
        # model-guided schedule: the harness takes the least-visited (room class, input hand-over class) from the (block_state, staged) the stream is in
        for _ in range(1 if tier == "quick" else 4):
            scns.append(igz.scenario(len(scns), "inflate", list(st), wrap=wrap, calls=[], tail_ai=max(n, 1), tail_ao=1 << 16, cap=max(600, 6 * n), mem=k % 3, prefill=k % 3,
                                     meta={"family": "model-guided", "adaptive": 1 + rng.randrange(1 << 20)})); k += 1
    # a stream of short-code blocks larger than the decoder's 64 KiB staging buffer: the first output buffer ends at / around block ends beyond
    # 64 KiB, and the first input piece ends at every byte near the place where the staging buffer fills (see C02 for the full family)
    import defgen
    pst, ends = defgen.packed_stream(rng, total=70000); pst = bytes(pst); n = len(pst)
    dd = zlib.decompressobj(-15); o = 0; off = n // 2
    for i in range(n):
        o += len(dd.decompress(pst[i:i + 1]))
        if o >= 65536: off = i; break
    j = 0
    for e in [e for e in ends if e > 65536 + 300][: (8 if tier == "quick" else 40)]:
        for x in (e - 2, e - 1, e, e + 1):
            scns.append(igz.scenario(len(scns), "inflate", list(pst), wrap=0, calls=[[n, x, 0, 0], [0, 1 << 17, 0, 0]], tail_ai=n, tail_ao=1 << 17, cap=4000, mem=j % 3, meta={"family": "packed-big-output-at-block-end", "salt": j % 6})); j += 1
    for cut in range(off - 16, off + 4):
        scns.append(igz.scenario(len(scns), "inflate", list(pst), wrap=0, calls=[[cut, 1 << 17, 0, 0], [n - cut, 1 << 17, 0, 0]], tail_ai=n, tail_ao=1 << 17, cap=4000, mem=j % 3, meta={"family": "packed-big-input-cut", "salt": j % 6})); j += 1
    # long matches (258 bytes) straddling the end of the 64 KiB staging buffer while the caller has drained a little more than 32 KiB of it:
    # all input at once, first output buffer 32768 + j bytes, then large ones
    per = bytes(igz.corpus(rng, "text", 300)); lm = per * (72000 // 300)
    c9 = zlib.compressobj(9, zlib.DEFLATED, -15); lst = c9.compress(lm) + c9.flush(); n = len(lst)
    for jj in range(0, 300, 3 if tier == "quick" else 1):
        scns.append(igz.scenario(len(scns), "inflate", list(lst), wrap=0, calls=[[n, 32768 + jj, 0, 0], [0, 1 << 17, 0, 0], [0, 1 << 17, 0, 0]], tail_ai=n, tail_ao=1 << 17, cap=4000, mem=jj % 3,
                                 meta={"family": "long-match-across-staging-end", "salt": jj % 6}))
    # zlib: the caller's buffer boundary falls exactly where the running Adler-32 low half is 0 (or 65520): the decoder carries B|(A-1) between calls
    from props import c11
    for name, d in c11.adler_edge_inputs(rng):
        if len(d) > 3000: continue
        pcut = len(d); d2 = bytes(d) + bytes(igz.corpus(rng, "text", 500))
        for lvl in (1, 6):
            zs = zlib.compress(d2, lvl)
            for first in (pcut, pcut - 1, pcut + 1):
                scns.append(igz.scenario(len(scns), "inflate", list(zs), wrap=3, calls=[[len(zs), first, 0, 0], [0, 1 << 16, 0, 0]], tail_ai=len(zs), tail_ao=1 << 16, cap=400, mem=first % 3, meta={"family": "output-boundary-at-adler-edge", "salt": first % 6}))
    # a stored block that resumes with one or two of its bytes already delivered while more of them wait in the decoder's bit buffer: the stored
    # block starts 0-4 bytes before the end of the 64 KiB staging buffer (all input, one large output buffer), or the caller's first output
    # buffer (larger than the staging buffer, so the decoder writes into it directly) ends 0-4 bytes into the stored block
    def stored(data, final): return bytes([1 if final else 0, len(data) & 255, len(data) >> 8, (len(data) ^ 0xffff) & 255, (len(data) ^ 0xffff) >> 8]) + bytes(data)
    j = 0
    for start in [65536 - k for k in range(0, 5)] + [70000, 131072 - 1, 131072 - 2]:
        body = bytes(igz.corpus(rng, "text", start))
        for slen in ((3, 9) if tier == "quick" else (3, 4, 5, 8, 9, 40)):
            c6 = zlib.compressobj(6, zlib.DEFLATED, -15)
            st = c6.compress(body) + c6.flush(zlib.Z_FULL_FLUSH) + stored(igz.corpus(rng, "random", slen), False) + stored(igz.corpus(rng, "text", 30), False) + stored(igz.corpus(rng, "random", 7), True)
            n = len(st)
            firsts = [1 << 18] if start != 70000 else [start + d for d in range(0, 5)]
            for first in firsts:
                scns.append(igz.scenario(len(scns), "inflate", list(st), wrap=0, calls=[[n, first, 0, 0], [0, 1 << 17, 0, 0]], tail_ai=n, tail_ao=1 << 17, cap=400, mem=j % 3, meta={"family": "stored-block-resumes-from-bit-buffer", "salt": j % 6})); j += 1
            scns.append(igz.scenario(len(scns), "inflate", list(st), wrap=0, calls=[], tail_ai=n, tail_ao=[4096, 65536, 32768][j % 3], cap=4000, mem=j % 3, meta={"family": "stored-block-resumes-from-bit-buffer", "salt": j % 6})); j += 1
    return scns

def run(tier, replay=None):
    v = Verdict("C07", tier)
    rng = random.Random(seed() * 48271 % (1 << 31) + 7)
    wd = workdir("c07")
    if replay:
        rp = json.load(open(replay))["replay"]["scenario"]
        dsc, isc = ([rp], []) if rp["api"] in (0, 1) else ([], [rp])
    else:
        dsc, isc = gen_deflate(tier, rng), gen_inflate(tier, rng)
    # the control state machines themselves, model-checked (all reachable states, every environment choice); runs beside the harness
    mcjobs = []
    if not replay:
        import concurrent.futures as cf
        mcjobs = [("DeflateStream", "mc/MCDeflateStream", None)] + [("InflateStream[%s]" % m, "mc/MCInflateStream", "MCInflateStream_%s.cfg" % m)
                  for m in (["RAW", "GZIP", "ZLIB", "GZIP_NO_HDR_VER", "ZLIB_NO_HDR"] + (["GZIP_NO_HDR", "ZLIB_NO_HDR_VER"] if tier == "thorough" else []))]
        mcex = cf.ThreadPoolExecutor(3)
        mcfut = mcex.map(lambda j: tlc_cached(j[1], cfg=j[2], wd=wd, workers=4, timeout=1500, xmx="2g", gc="serial"), mcjobs)
    calls = 0
    fams = {}
    out = {}
    for name, scns, module in (("deflate", dsc, "trace/TraceDeflate"), ("inflate", isc, "trace/TraceInflate")):
        if not scns: continue
        tf = igz.run_harness(scns, wd, name)
        recs, summ, by = igz.merge(scns, tf)
        calls += summ.get("calls", 0)
        res, _ = igz.judge(module, igz.group_inflate(recs) if name == "inflate" else recs, wd, name, shards=12)
        igz.report(v, scns, res, by, prefix=name + ":")
        out[name] = (scns, res, by)
        for s in scns:
            if len(by[s["scn"]]["calls"]) >= 2: fams[(name, s["meta"]["family"], s["level"], s["wrap"], s["mem"])] = 1
        if name == "deflate" and not replay:
            # streams the library itself just produced (level-0 default-table header, level 1-3 headers, stored blocks) go back in through isal_inflate
            # under several schedules: the decoder has a fast path for its own default header when more than 118 bytes are offered at once
            picked = {}
            for s in scns:
                b = by[s["scn"]]
                if b["end"].get("state") == "END" and s["wrap"] in (0, 1, 3) and s["dictmode"] == 0 and (s["level"], s["wrap"], s["table"]) not in picked:
                    o = [x for c in b["calls"] for x in c["out"]]
                    if 200 < len(o) < 6000: picked[(s["level"], s["wrap"], s["table"])] = o
            k2 = len(isc)
            for (lv, wr, tb), o in sorted(picked.items())[:14]:
                n2 = len(o)
                for sched in ([[n2, 1 << 17, 0, 0]], [[150, 1 << 17, 0, 0], [n2, 1 << 17, 0, 0]], None, "adaptive"):
                    meta = {"family": "own-stream", "salt": k2 % 6}
                    if sched == "adaptive": meta["adaptive"] = 1 + k2
                    isc.append(igz.scenario(len(isc), "inflate", o, wrap=wr, calls=sched if isinstance(sched, list) else [], tail_ai=[n2, 9][sched is None], tail_ao=[1 << 17, 64][sched is None],
                                            cap=max(4000, 8 * n2), mem=k2 % 3, prefill=k2 % 3, meta=meta)); k2 += 1
                isc.append(igz.scenario(len(isc), "inflate_stateless", o, wrap=wr, calls=[[n2, 1 << 17, 0, 0]], meta={"family": "own-stream", "salt": 0}))
    nd, ni = len(dsc), len(isc)
    models = {}
    if mcjobs:
        for (name, mod, cfg), r in zip(mcjobs, mcfut):
            models[name] = {"distinct_states": r["distinct"], "states_generated": r["generated"], "reused_result_for_unchanged_spec": r["cached"]}
        mcex.shutdown()
    mc = igz.model_coverage(out["deflate"][1]) if "deflate" in out else {}
    if mc:
        import verif as _v
        with open(os.path.join(_v.BUILD, "c07-model-transitions-unobserved.txt"), "w") as f:
            for t in sorted(mc["_reach"] - mc["_obs"]): f.write(" ".join(map(str, t)) + "\n")
    cov = {"states": nd + ni, "transitions": calls, "traces_validated_against_impl": nd + ni, "evaluations": nd + ni, "distinct_nontrivial": len(fams),
           "deflate_scenarios": nd, "inflate_scenarios": ni,
           "state_machine_conformance": {"model": "spec/DeflateStreamOps.tla (tabulated by spec/gen/GenDeflateStream.tla)", "calls_not_in_model": igz.drift_count(out["deflate"][1] if "deflate" in out else {}),
                                         "model_transition_coverage": dict({k: x for k, x in mc.items() if not k.startswith("_")}, **(igz.key_coverage(mc) if mc else {}))},
           "control_models_checked": models,
           "inflate_state_machine_conformance": igz.inflate_conformance(out["inflate"][1]) if "inflate" in out else {},
           "rule": "call histories: every single split point of input (all for n<=40/48, boundary+random points beyond), (in-chunk,out-chunk) pairs from {1,2,7,8,9,16,17,33,256,257,...}, random schedules with flush-mode changes and end_of_stream announced on a later empty call, "
                   "refill-before-drain with 1..20-byte output, three chunk-memory disciplines (contiguous / fresh mapping unmapped when consumed / recycled and scribbled); compression traces are judged by TraceDeflate.tla "
                   "(accounting, progress, END reached, final stream decodes to the concatenated input); decompression traces (zlib/gzip-made streams in all 7 modes, one-shot and streaming) by TraceInflate.tla against the spec's decode of the same stream "
                   "(bytes, FINISH, position, checksum); states = scenarios, transitions = recorded calls; distinct_nontrivial = distinct (direction, family, level, wrapper, memory discipline) with >= 2 calls",
           "samples": [igz.describe(x[min(5, len(x) - 1)]) for x in (dsc, isc) if x]}
    cleanup(wd)
    return v.finish("model_checking", cov, ["TLC evaluates the decoder/contract rules correctly", "schedules are drawn by the driver from VERIF_SEED (inputs only)", "zlib/gzip (python) are used only as producers of streams; the spec decides what they decode to"])
