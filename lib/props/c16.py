"""C16 — the dispatcher only selects code the CPU/OS can execute (exhaustive over closed configurations)."""
import os, re, hashlib, glob, shutil
from verif import *
import isa_classify

MB = ["crc/crc_multibinary.asm", "crc/crc64_multibinary.asm", "erasure_code/ec_multibinary.asm", "raid/raid_multibinary.asm",
      "mem/mem_multibinary.asm", "igzip/igzip_multibinary.asm", "igzip/igzip_inflate_multibinary.asm"]

def parse_entries():
    """entry -> (macro, [kernel args]) from the *_multibinary.asm files of the working tree (x86-64, AS_FEATURE_LEVEL 10 branch)."""
    ents = {}
    order = []
    for f in MB:
        src = open(os.path.join(REPO, f)).read()
        # honour the %ifidn elf32 / %else split of ec_multibinary: take the last definition seen for a name (64-bit branch comes last)
        for m in re.finditer(r"^\s*(mbin_dispatch_init\w*)\s+([^\n;]+)", src, re.M):
            if m.group(0).lstrip().startswith("%"): continue
            args = [a.strip() for a in m.group(2).split(",")]
            if args[0] not in ents: order.append(args[0])
            ents[args[0]] = (m.group(1), args[1:])
        for m in re.finditer(r"^(\w+)_dispatch_init:", src, re.M):
            if m.group(1) not in ents:
                ents[m.group(1)] = ("custom", []); order.append(m.group(1))
    return ents, order

def build_disp():
    d = libdir()
    outb = os.path.join(d, "h_disp")
    ents, order = parse_entries()
    stamp = os.path.join(d, "h_disp.ok")
    srcs = [os.path.join(HARNESS, x) for x in ("h_disp.c", "cpuid_shim.asm", "cpuid_stubs.asm")]
    if os.path.exists(outb) and os.path.exists(stamp) and all(os.path.getmtime(outb) >= os.path.getmtime(s) for s in srcs):
        return outb, ents, order
    w = os.path.join(d, "disp"); shutil.rmtree(w, ignore_errors=True); os.makedirs(w)
    inc = " ".join("-I%s/%s/" % (REPO, u) for u in ("", "erasure_code", "raid", "crc", "igzip", "mem", "include"))
    objs = []
    for f in MB:
        o = os.path.join(w, os.path.basename(f).replace(".asm", ".o"))
        sh("nasm -f elf64 -DINTEL_CET_ENABLED -g -D ISAL_VERIF %s -DAS_FEATURE_LEVEL=10 -DHAVE_AS_KNOWS_AVX512 -p %s/cpuid_shim.asm -o %s %s/%s" %
           (inc, HARNESS, o, REPO, f))
        # the shimmed object must not contain the real instructions any more
        dis = sh("objdump -d -M intel %s" % o).stdout
        if re.search(r"\b(cpuid|xgetbv)\b", dis): raise Infra("shim failed: %s still contains cpuid/xgetbv" % f)
        sh("objcopy %s %s" % (" ".join("--globalize-symbol=%s_dispatch_init --globalize-symbol=%s_dispatched --globalize-symbol=%s_mbinit" % (e, e, e) for e in order), o))
        objs.append(o)
    syms = sh("nm " + " ".join(objs)).stdout
    have = [e for e in order if re.search(r" [TtDd] %s_dispatch_init$" % re.escape(e), syms, re.M)]
    with open(os.path.join(w, "disp_entries.inc"), "w") as fh:
        for e in have: fh.write("ENTRY(%s)\n" % e)
    sh("nasm -f elf64 -o %s/cpuid_stubs.o %s/cpuid_stubs.asm" % (w, HARNESS))
    # archive without the original multibinary members
    a2 = os.path.join(w, "isa-l-nomb.a")
    shutil.copy(os.path.join(d, "isa-l.a"), a2)
    sh("ar d %s %s" % (a2, " ".join(os.path.basename(f).replace(".asm", ".o") for f in MB)))
    sh("gcc -O1 -g -no-pie -I%s -I%s/include -o %s %s/h_disp.c %s %s/cpuid_stubs.o -Wl,--whole-archive %s -Wl,--no-whole-archive" %
       (w, REPO, outb, HARNESS, " ".join(objs), w, a2))
    open(stamp, "w").write("ok")
    return outb, {e: ents[e] for e in have}, have

def shim_kit():
    """re-assembled multibinary objects + stubs + archive without the original multibinary members (built with h_disp)"""
    build_disp()
    w = os.path.join(libdir(), "disp")
    objs = [os.path.join(w, os.path.basename(f).replace(".asm", ".o")) for f in MB]
    return w, objs

def build_shimmed(name, src, extra=""):
    """link a harness program against the library with the intercepted resolvers and the env-driven CPUID answers"""
    w, objs = shim_kit()
    outb = os.path.join(libdir(), name)
    srcs = [os.path.join(HARNESS, src), os.path.join(HARNESS, "cpuid_env.c"), os.path.join(HARNESS, "vh.h")]
    if os.path.exists(outb) and all(os.path.getmtime(outb) >= os.path.getmtime(x) for x in srcs):
        return outb
    sh("gcc -O1 -g -Wall -Wno-unused-function -D%s -I%s -I%s/include -I%s/igzip -o %s.tmp %s/%s %s/cpuid_env.c %s %s/cpuid_stubs.o -Wl,--whole-archive %s/isa-l-nomb.a -Wl,--no-whole-archive %s -lpthread" %
       (GUARD, HARNESS, REPO, REPO, outb, HARNESS, src, HARNESS, " ".join(objs), w, w, extra))
    os.rename(outb + ".tmp", outb)
    return outb

def configs(wd):
    """closed configurations from spec/gen/GenDispatch.tla; cached by the hash of the spec (does not depend on /repo)"""
    h = hashlib.sha256(open(os.path.join(SPEC, "Dispatch.tla"), "rb").read() + open(os.path.join(SPEC, "gen/GenDispatch.tla"), "rb").read()).hexdigest()[:16]
    cache = os.path.join(BUILD, "dispatch-configs-%s.ndjson" % h)
    if not os.path.exists(cache):
        for old in glob.glob(os.path.join(BUILD, "dispatch-configs-*")): os.remove(old)
        tmp = cache + ".tmp%d" % os.getpid()
        tlc("gen/GenDispatch", wd=wd, env={"VERIF_OUT": tmp}, timeout=900, xmx="6g")
        os.rename(tmp, cache)
    return cache

def run(tier, replay=None):
    v = Verdict("C16", tier)
    wd = workdir("c16")
    hb, ents, order = build_disp()
    cfile = configs(wd)
    cfgs = read_ndjson(cfile)
    ci = os.path.join(wd, "cfgs.txt")
    with open(ci, "w") as f:
        f.write("%d\n" % len(cfgs))
        for c in cfgs: f.write("%d %d %d %d %d %d\n" % (c["c1eax"], c["c1ecx"], c["c7ebx_lo"], c["c7ebx_hi"], c["c7ecx"], c["xcr0"]))
    raw = os.path.join(wd, "sel.ndjson")
    sh([hb, ci, raw], timeout=600)
    sel = read_ndjson(raw)
    summ = sel[-1]; sel = sel[:-1]
    if summ.get("bad_leaf"): log("note: resolvers queried an unexpected CPUID leaf %d times" % summ["bad_leaf"])
    # address -> symbol, requirement sets from the machine code of this very binary
    funcs = isa_classify.classify(hb)
    addr2sym = {}
    for l in sorted(sh("nm " + hb).stdout.splitlines(), key=lambda l: (l.split() + ["", "", ""])[1] == "T"):
        p = l.split()
        if len(p) == 3 and p[1] in "Tt":
            a = int(p[0], 16)
            if p[1] == "T" or a not in addr2sym: addr2sym[a] = p[2]      # prefer the global name at an address
    groups, uncovered = [], []
    for e in sel:
        macro, args = ents[e["entry"]]
        by = {}
        for i, a in enumerate(e["sel"]): by.setdefault(a, []).append(i + 1)
        xg = [i + 1 for i, n in enumerate(e["xgetbv"]) if n]
        first = True
        for a, ids in by.items():
            sym = addr2sym.get(a)
            if sym is None:
                v.violation("%s:unknown-target" % e["entry"], "resolver of %s stored address 0x%x which is no function symbol" % (e["entry"], a), {"entry": e["entry"], "cfg": cfgs[ids[0] - 1]})
                continue
            req = sorted(isa_classify.closure(funcs, sym))
            groups.append({"entry": e["entry"], "sym": sym, "req": req, "cfgs": ids, "xgetbv_cfgs": xg if first else [], "macro": macro,
                           "slot_syms": args if args else ["-"]})
            first = False
    gfile, ofile = os.path.join(wd, "groups.ndjson"), os.path.join(wd, "out.ndjson")
    write_ndjson(gfile, groups)
    r = tlc("trace/TraceDispatch", wd=wd, env={"VERIF_CFGS": cfile, "VERIF_IN": gfile, "VERIF_OUT": ofile}, timeout=1500, xmx="8g")
    res = read_ndjson(ofile)
    drift = 0
    for g, o in zip(groups, res):
        drift += o["drift"]
        if o["nbad"]:
            c = cfgs[o["first_bad"] - 1]
            missing = sorted(set(g["req"]) - set(c["avail"]))
            feat = "+".join(missing)
            v.violation("%s->%s:needs:%s" % (g["entry"], g["sym"], feat),
                        "%s resolves to %s (uses %s) under %d configurations where %s is not available, e.g. avail=%s regs=%s" %
                        (g["entry"], g["sym"], ",".join(g["req"]), o["nbad"], feat, c["avail"], {k: c[k] for k in ("c1ecx", "c7ebx_lo", "c7ebx_hi", "c7ecx", "xcr0")}),
                        {"entry": g["entry"], "selected": g["sym"], "requires": g["req"], "config": c, "n_configs": o["nbad"]})
        if o["nxbad"]:
            c = cfgs[o["first_xbad"] - 1]
            v.violation("%s:xgetbv-without-osxsave" % g["entry"], "resolver of %s executes XGETBV with OSXSAVE clear (%d configurations)" % (g["entry"], o["nxbad"]),
                        {"entry": g["entry"], "config": c})
    # "whatever implementation is selected, observable results are identical": one digest through the public entry points per simulated CPU level
    from props import c17
    ha = build_shimmed("h_agree_cpu", "h_agree.c")
    dig = {}
    for lvl in ["base", "sse", "avx", "avx2", "avx512", "avx512g2", "avx2gfni"]:
        f = os.path.join(wd, "digest-%s.json" % lvl)
        rr = sh([ha, f], env={"VERIF_CPU": lvl}, timeout=300, check=False)
        if rr.returncode != 0:
            v.violation("agreement:%s:crash" % lvl, "the public entry points crashed (exit %d) under the simulated %s CPU level" % (rr.returncode, lvl), {"level": lvl}); continue
        dig[lvl] = json.load(open(f))["digest"]
    pairs = [("results-agree-across-cpu-levels|%s vs base" % lvl, dig["base"], dig[lvl], {"levels": ["base", lvl]}) for lvl in dig if lvl != "base" and "base" in dig]
    nagree = c17.equal_pairs(v, pairs, wd, "c16") if pairs else 0
    kernels = sorted(set(g["sym"] for g in groups))
    cov = {"evaluations": len(cfgs) * len(sel), "distinct_nontrivial": len(cfgs) * len(sel) - len(sel), "exhaustive": True,
           "closed_configurations": len(cfgs), "entry_points": len(sel), "distinct_selected_implementations": len(kernels),
           "requirements": {g["sym"]: g["req"] for g in groups}, "model_drift_pairs": drift,
           "closure_rules": "R1..R13 in spec/Dispatch.tla", "cross_level_agreement_pairs": nagree, "digest_values_per_level": len(dig.get("base", [])), "functions_classified": len(funcs),
           "rule": "TLC enumerates every dependency-closed assignment of the bits the resolvers examine (spec/Dispatch.tla, rules R1-R13); the repository's own *_multibinary.asm files are re-assembled from the working tree with cpuid/xgetbv "
                   "replaced by calls into the harness; every resolver is run under every configuration and the stored pointer recorded; the requirement set of each selected implementation is computed from its machine code "
                   "(objdump; encoding class, register width, mnemonic; transitive over direct calls); TLC (TraceDispatch.tla) checks Req subseteq Avail for every (configuration, entry point) pair and XGETBV => OSXSAVE; "
                   "distinct_nontrivial = pairs other than the all-clear configuration; agreement: a digest of results obtained through the public entry points (13 checksums x 31 lengths, EC tables+encode+update for 17 lengths x 9 row counts, RAID gen/check, zero-detect, deflate->inflate round trips at 4 levels x 3 wrappers) is computed once per simulated CPU level and every level is compared with the base level by TLC (TraceEqual.tla)",
           "samples": [{"entry": groups[0]["entry"], "selected": groups[0]["sym"], "requires": groups[0]["req"], "n_configs": len(groups[0]["cfgs"]), "example_config": cfgs[groups[0]["cfgs"][0] - 1]}]}
    cleanup(wd)
    return v.finish("exploration", cov, ["closure rules R1-R13 define 'architecturally consistent'", "ISA classifier table (lib/isa_classify.py) maps mnemonic/encoding/width to extensions; unknown mnemonics contribute nothing",
                                         "indirect calls through dispatch slots are resolved by the callee's own resolver and not followed", "CPUID/XGETBV stubs preserve all other registers"])
