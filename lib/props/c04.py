"""C04 — CRC and Adler-32 equal their definitions and compose (direction G; Checksums.tla is the oracle)."""
import os, random
from verif import *

WIDTH = {"crc16_t10dif": 1, "crc32_ieee": 2, "crc32_gzip_refl": 2, "crc32_iscsi": 2, "adler32": 2, "adler32_bam1": 2}
for x in ("ecma", "iso", "jones", "rocksoft"):
    for y in ("refl", "norm"): WIDTH["crc64_%s_%s" % (x, y)] = 4

MEMORY_KINDS = ("fault", "source-modified", "write-outside-destination")
def run(tier, replay=None, v=None, memory_only=False):
    own = v is None
    if own: v = Verdict("C04", tier)
    rng = random.Random(seed() * 15485863 + 4)
    wd = workdir("c04")
    N = 8300 if tier == "thorough" else 1100
    if memory_only: N = 700
    recs = []
    for fn, nl in sorted(WIDTH.items()):
        if fn.startswith("adler"):
            seeds = [[1, 0], [65520, 65520], [rng.randrange(65521), rng.randrange(65521)], [0, 0], [rng.randrange(65521), rng.randrange(65521)]]
        else:
            seeds = [[0] * nl, [65535] * nl] + [[rng.randrange(65536) for _ in range(nl)] for _ in range(3)]
        for si, sd in enumerate(seeds[:1] if memory_only else seeds if tier == "thorough" else seeds[:3]):
            style = (si + len(recs)) % 3
            if fn.startswith("adler") and si == 0: style = 1      # the long Adler message is all 0xFF: the sums grow fastest, so the deferred modular reductions are stressed
            n = N if si < 2 else N // 2 + rng.randrange(50)
            if fn.startswith("adler") and si == 0 and not memory_only: n = 11200 if tier == "quick" else 22400   # past two / four 5552-byte reduction blocks, every tail
            if fn == "crc32_iscsi" and si == 0 and not memory_only: n = 6300 if tier == "quick" else 12500          # past two / four of the 3-way kernels' 3072-byte blocks, every tail
            msg = [rng.randrange(256) for _ in range(n)] if style == 0 else [255] * n if style == 1 else [rng.choice([0, 0, 0, 255, 1]) for _ in range(n)]
            recs.append({"id": len(recs), "fn": fn, "seed": sd, "msg": msg, "final_only": False})
        if tier == "thorough" and not memory_only:   # one large message per function (>= 1 MiB for adler's NMAX-style reductions; 256 KiB for the CRCs)
            big = (1 << 20) + 77 if fn.startswith("adler") else (1 << 18) + 77
            recs.append({"id": len(recs), "fn": fn, "seed": seeds[1], "msg": [255 if fn.startswith("adler") else rng.randrange(256) for _ in range(big)], "final_only": True})
    # messages longer than 2^32 bytes: head, a run of n zero bytes (sparse mapping), tail; TLC advances the register by x^(8n) mod P
    hrecs = []
    if not memory_only:
        for fn, nl in sorted(WIDTH.items()):
            if fn == "crc32_iscsi": continue          # its length parameter is an int
            nz = (1 << 32) + rng.randrange(1, 5000)
            sd = [rng.randrange(65521) for _ in range(nl)] if fn.startswith("adler") else [rng.randrange(65536) for _ in range(nl)]
            hrecs.append({"id": len(recs) + len(hrecs), "fn": fn, "seed": sd, "msg": [rng.randrange(256) for _ in range(40 + rng.randrange(60))], "nz": nz,
                          "zbits": [int(c) for c in bin(nz)[2:]], "tail": [rng.randrange(256) for _ in range(1 + rng.randrange(300))], "final_only": True})
    inp, outp = os.path.join(wd, "in.ndjson"), os.path.join(wd, "vec.ndjson")
    # shard TLC over several JVMs
    shards = 8 if tier == "thorough" else 4
    import concurrent.futures as cf
    parts = [(recs + [{k: x for k, x in h.items() if k != "nz"} for h in hrecs])[i::shards] for i in range(shards)]
    def gen(i):
        a, b = inp + str(i), outp + str(i)
        write_ndjson(a, parts[i])
        r = tlc("gen/GenCrc", wd=wd, env={"VERIF_IN": a, "VERIF_OUT": b}, timeout=3000, xmx="6g")
        return read_ndjson(b), r["wall"]
    with cf.ThreadPoolExecutor(shards) as ex:
        outs = list(ex.map(gen, range(shards)))
    vecs = {x["id"]: x for o, _ in outs for x in o}
    if len(vecs) != len(recs) + len(hrecs): raise Infra("GenCrc incomplete")
    toks = [len(recs)]
    for rec in recs:
        vec = vecs[rec["id"]]
        toks += [rec["id"], rec["fn"], len(vec["seed"])] + vec["seed"] + [1 if rec["final_only"] else 0, len(rec["msg"])] + rec["msg"]
        for e in vec["exp"]: toks += e
    vf = os.path.join(wd, "vec.txt")
    open(vf, "w").write(" ".join(map(str, toks)))
    htoks = [len(hrecs)]
    for rec in hrecs:
        vec = vecs[rec["id"]]
        htoks += [rec["id"], rec["fn"], len(vec["seed"])] + vec["seed"] + [len(rec["msg"])] + rec["msg"] + [rec["nz"] >> 32, rec["nz"] & 0xffffffff, len(rec["tail"])] + rec["tail"] + vec["exp"][0] + vec["exp"][1]
    hf = os.path.join(wd, "huge.txt")
    open(hf, "w").write(" ".join(map(str, htoks)))
    h = build_harness("h_crc", ["h_crc.c"])
    res = os.path.join(wd, "res.ndjson")
    sh([h, vf, res, "1" if tier == "thorough" else "7", hf, "0" if tier == "thorough" else "1"], timeout=3300)
    out = read_ndjson(res)
    summ = [o for o in out if o["e"] == "summary"][0]
    for m in out:
        if m["e"] != "mismatch": continue
        if memory_only and m["what"] not in MEMORY_KINDS: continue
        rec = (recs + hrecs)[m["vec"]]
        v.violation("%s:%s" % (m["fn"], m["what"]), "%s %s: vector %d (%s seed %s) len=%d placement=%d off/split=%d" %
                    (m["fn"], m["what"], m["vec"], rec["fn"], rec["seed"], m["len"], m["placement"], m["off"]),
                    {"mismatch": m, "fn": rec["fn"], "seed_limbs": rec["seed"], "msg": rec["msg"][:5000], "verif_seed": seed(), "tier": tier})
    if summ["mismatches"] > 40 and not memory_only: v.violation("many", "%d mismatches" % summ["mismatches"], {})
    if not own:
        cleanup(wd)
        return {"calls": summ["calls"], "faults": summ["faults"]}
    exercised = sorted(k for k, c in summ["variants"].items() if c > 0)
    missing = sorted(k for k, c in summ["variants"].items() if c <= 0)
    cov = {"evaluations": summ["calls"], "distinct_nontrivial": summ["calls"] - 3 * len(recs) * 5, "split_points": summ["splits"], "vectors": len(recs), "huge_length_vectors": len(hrecs), "huge_length_calls": ([o for o in out if o["e"] == "hugesummary"] or [{"calls": 0}])[0]["calls"],
           "variants_exercised": exercised, "variants_absent": missing, "faults": summ["faults"],
           "spec_anchors": "published check values for '123456789' (CRC-16/T10-DIF D0DB, CRC-32 CBF43926, BZIP2 FC891918, CRC-32C E3069283, CRC-64/XZ, /WE, /GO-ISO, /NVME, Adler-32 091E01DE) and bit-serial = table-driven are ASSUMEd in GenCrc.tla on every run",
           "rule": "per (function, seed in {0, all-ones, random...}, message of N bytes from VERIF_SEED): TLC folds Checksums.tla once and emits the value of every prefix; harness calls every variant "
                   "(base, _00/_01/_02, by4, by8, by8_02, by16_10, dispatched; adler base/sse/avx2 and the B|(A-1) form) for every len 0..N (all <600, all within 72 of a multiple of 5552 or a power of two, stride elsewhere in quick; Adler-32 messages reach 11200 / 22400 bytes) x 3 placements (end/start flush against inaccessible pages, interior) "
                   "+ all 64 alignments at 5 lengths; every split point of 6 total lengths with the first result fed as seed; copy form checks dst==src and canaries; per function one message of 2^32 + r bytes (head, sparse zero run, tail; expected value by multiplication with x^(8n) mod P in the spec, whole and composed; dispatched entry points in quick, every variant in thorough; crc32_iscsi excluded: int length). distinct_nontrivial = calls with len>0",
           "samples": [{"fn": r["fn"], "seed_limbs": r["seed"], "msg_first8": r["msg"][:8], "exp_len8_limbs": vecs[r["id"]]["exp"][8]} for r in recs[:3]]}
    cleanup(wd)
    return v.finish("exploration", cov, ["TLC evaluates Checksums.tla correctly", "seed/result conventions as documented in crc.h, crc64.h (read from the headers and crc_base.c comments)",
                                         "Adler-32 seeds restricted to valid states (A,B < 65521)"])
