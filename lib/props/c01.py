"""C01 — compression is lossless and RFC conformant (direction V; the TLA+ decoder is the only judge)."""
import os, random
from verif import *
import igz
from defgen import DIST_BASE as defgen_DIST_BASE, DIST_EXTRA as defgen_DIST_EXTRA

CPUS = ["base", "sse", "avx", "avx2", "avx512", "avx512g2"]

def gen(tier, rng):
    scns = []
    def add(**kw):
        kw["scn"] = len(scns); scns.append(igz.scenario(**kw))
    small = [("empty", 0), ("random", 1), ("random", 16), ("text", 281), ("text", 299), ("text", 300), ("runs", 1500), ("zeros", 700), ("ff", 258), ("ff", 259),
             ("lowent", 900), ("periodic", 2000), ("records", 1800), ("random", 600), ("text", 2000), ("runs", 8190), ("text", 8200)]
    n_small = len(small) if tier == "quick" else len(small) * 4
    wraps = list(igz.WRAPS.values())
    k = 0
    for rep in range(n_small // len(small)):
        for cls, n in small:
            inp = igz.corpus(rng, cls, n + (rng.randrange(7) if rep else 0))
            for level in range(4):
                # covering sample: every value of every parameter appears; pairs level x wrap, level x flush, level x cpu cycle
                wrap = wraps[(k + level) % 5]; flush = (k + level // 2) % 3; hb = [0, 9, 10, 11, 12, 13, 14, 15][(k + level) % 8]
                table = [0, 1, 2][(k // 2) % 3] if level == 0 else 0
                lbuf = [0, 1, 3, 4, 2][(k + level) % 5]
                cpu = CPUS[(k + k // 4) % len(CPUS)]
                oneshot = (k + level) % 3 == 0
                if oneshot:
                    add(api="deflate_stateless", inp=inp, level=level, wrap=wrap, hist_bits=hb, table=table, lbuf=lbuf,
                        calls=[[len(inp), len(inp) * 2 + 600, 0, 1]], meta={"cls": cls, "cpu": cpu})
                else:
                    step = [len(inp) + 1, 97, 1000, 33][(k // 3) % 4]
                    calls = [[step, 100000, flush, 1] for _ in range(len(inp) // step + 1)]
                    add(api="deflate", inp=inp, level=level, wrap=wrap, hist_bits=hb, table=table, lbuf=lbuf, calls=calls, meta={"cls": cls, "cpu": cpu})
                k += 1
    # inputs whose Adler-32 halves hit their boundary values (A or B equal to 0 or 65520), zlib wrappers, one-shot and streaming, every CPU level in turn
    from props import c11
    for i, (name, inp) in enumerate(c11.adler_edge_inputs(rng)):
        if len(inp) > 20000 and tier == "quick" and i % 2: continue
        for j, wrap in enumerate([3, 4]):
            level = (i + j) % 4
            add(api="deflate_stateless", inp=inp, level=level, wrap=wrap, lbuf=3, calls=[[len(inp), len(inp) * 2 + 600, 0, 1]], meta={"cls": name, "cpu": CPUS[(i + j) % len(CPUS)]})
            add(api="deflate", inp=inp, level=(level + 1) % 4, wrap=wrap, lbuf=3, calls=[[777, 100000, 0, 1] for _ in range(len(inp) // 777 + 1)], meta={"cls": name, "cpu": CPUS[(i + j + 1) % len(CPUS)]})
    # constant 0x00 / 0xFF input of EVERY length in a range, one-shot: the repeated-character fast path picks its codes by
    # (length-1) mod 258, so every residue must be visited (long runs are cheap for the TLA+ decoder)
    lens = list(range(8, 540)) + [747, 1263, 4095, 4096, 4097] + (list(range(540, 3000)) + list(range(65500, 66300, 1)) if tier == "thorough" else [65505, 65535, 65536 + 230])
    for i, n in enumerate(lens):
        add(api="deflate_stateless", inp=[0, 255][i % 2] and [255] * n or [0] * n, level=i % 4, wrap=wraps[(i // 4) % 5], lbuf=3, calls=[[n, n + 400, 0, 1]],
            meta={"cls": "constant", "cpu": CPUS[i % len(CPUS)]})
        if i % 2 == 0:     # and a leading run followed by other data
            tail = igz.corpus(rng, "text", 40)
            add(api="deflate_stateless", inp=[[0, 255][(i // 2) % 2]] * (4096 + n) + tail, level=(i // 2) % 4, wrap=wraps[(i // 3) % 5], lbuf=3, calls=[[4096 + n + 40, 6000 + n, 0, 1]],
                meta={"cls": "constant-prefix", "cpu": CPUS[(i + 1) % len(CPUS)]})
    # every (CPU level, compression level) pair on a medium input long enough for the vector kernels' main loops
    # (level-3 match-map generators _04/_06, hash kernels, encode_df _04/_06); match-heavy data decodes fast in TLC
    for ci, cpu in enumerate(CPUS):
        for level in range(4):
            cls = ["runs", "periodic", "lowent", "records"][(ci + level) % 4]
            n = {"records": 9000}.get(cls, 30000 if tier == "quick" else 90000)
            inp = igz.corpus(rng, cls, n)
            if (ci + level) % 2:
                add(api="deflate_stateless", inp=inp, level=level, wrap=wraps[(ci + level) % 5], hist_bits=[0, 12, 0, 15, 9, 0][ci], lbuf=3, calls=[[n, n + 4000, 0, 1]], meta={"cls": cls + "-medium", "cpu": cpu})
            else:
                add(api="deflate", inp=inp, level=level, wrap=wraps[(ci + level) % 5], hist_bits=[0, 12, 0, 15, 9, 0][ci], lbuf=[3, 1, 0][level % 3],
                    calls=[[[4096, 289, 20000][ci % 3], 1 << 16, [0, 1, 2][(ci + level) % 3], 1]] * (n // 289 + 2), meta={"cls": cls + "-medium", "cpu": cpu})
    # long symbols (far matches with many extra bits) through the vectorised Huffman bit packers encode_df _04 (AVX2) / _06 (AVX-512)
    for ci, (cpu, level) in enumerate([("avx2", 1), ("avx2", 2), ("avx2", 3), ("avx512g2", 2), ("avx2", 3), ("avx2", 1), ("avx2", 2), ("avx512g2", 1)] + ([("avx2", 1), ("avx512", 1), ("avx512g2", 3), ("base", 2), ("sse", 3)] if tier == "thorough" else [])):
        n = 250000 if tier == "quick" else 1200000
        inp = igz.corpus(rng, ["farcopy", "symmix", "symmix", "symmix"][ci % 4], n)
        add(api=["deflate_stateless", "deflate"][ci % 2], inp=inp, level=level, wrap=[1, 0, 3][ci % 3], lbuf=3, calls=[[n, n + 5000, 0, 1]], meta={"cls": "farcopy", "cpu": cpu})
    # alphabets with gaps of exact sizes (levels 1-3 build a dynamic code per block and run-length encode the code lengths: zero runs of 3, 10/11,
    # 138/139 and multiples are where the repeat codes 17 / 18 change over), in the literal and in the distance alphabet
    k2 = 0
    for g in (3, 10, 11, 12, 137, 138, 139, 140, 148, 149, 150):
        for hi in (255 - g, 200):                      # gap directly below end-of-block (largest byte 255-g), or in the middle
            if hi - g - 1 < 2: continue
            low = [x for x in range(max(0, hi - g - 30), hi - g)] if hi != 255 - g else [x for x in range(max(0, 255 - g - 40), 256 - g)]
            alpha = low + ([hi + 1, hi + 2] if hi != 255 - g and hi + 2 < 256 else [])
            if hi != 255 - g: alpha = [x for x in alpha if not (hi - g < x <= hi)]
            words = [[rng.choice(alpha) for _ in range(rng.randrange(3, 9))] for _ in range(40)]
            inp = []
            while len(inp) < 2500: inp += rng.choice(words)
            inp += alpha                                  # every symbol of the alphabet occurs
            for level in (1, 2, 3):
                if tier == "quick" and (k2 + level) % 2 and g not in (11, 138, 139): continue
                add(api=["deflate_stateless", "deflate"][k2 % 2], inp=inp, level=level, wrap=wraps[k2 % 5], lbuf=3, calls=[[len(inp), len(inp) + 600, [0, 1][k2 % 2], 1]], tail_ao=1 << 16, meta={"cls": "alphabet-gap-%d" % g, "cpu": CPUS[k2 % len(CPUS)]})
            k2 += 1
    # far matches whose source differs from the target one byte after a common prefix, while the data one byte CLOSER goes on matching (source
    # KEY x CONT ... target KEY CONT), at the first and the last distance of every distance code from 24 bytes up: a match extended with a wrong
    # distance base becomes an over-long match.  The filler has a 3-byte period, so it occupies three hash slots and leaves the KEY entries alone
    hi_bytes = list(range(128, 256))
    near = []
    for ds in range(8, 30):
        for d in sorted(set([defgen_DIST_BASE[ds], defgen_DIST_BASE[ds] + (1 << defgen_DIST_EXTRA[ds]) - 1])):
            if d < 64: continue
            key = [rng.choice(hi_bytes) for _ in range(12)]; cont = [rng.choice(hi_bytes) for _ in range(40)]
            seg = key + [rng.choice(hi_bytes)] + cont
            seg += [97 + (i % 3) for i in range(d - len(seg))]
            near += seg + key + cont + [100 + (i % 3) for i in range(50)]
    for ci, cpu in enumerate(("avx512g2", "avx512", "avx2", "base") if tier == "quick" else CPUS):
        for level in (1, 2, 3):
            add(api=["deflate_stateless", "deflate"][(ci + level) % 2], inp=near, level=level, wrap=[0, 1, 3][(ci + level) % 3], lbuf=3, calls=[[len(near), len(near) + 4000, 0, 1]], tail_ao=1 << 18, meta={"cls": "near-miss-far-matches", "cpu": cpu})
    # a long run (a series of length-258 tokens) beginning at every fill level of the smallest level buffers' token buffer: mostly incompressible
    # data of P bytes (with a short repeat every 600 bytes), a 3000-byte run, then more data; P swept over more than one buffer fill
    rndp = igz.corpus(rng, "random", 3400)
    for i in range(0, 3400 - 12, 600): rndp[i + 300:i + 306] = rndp[i:i + 6]
    for P in range(1500, 3300, 6 if tier == "quick" else 1):
        for level in ((1 + (P // 6) % 2,) if tier == "quick" else (1, 2, 3)):
            inp = rndp[:P] + [rndp[P] ^ 0x55] * 3000 + rndp[100:600]
            add(api=["deflate", "deflate_stateless"][(P // 12) % 2], inp=inp, level=level, wrap=[1, 0, 3][P % 3], lbuf=0, calls=[[len(inp), len(inp) + 600, 0, 1]], tail_ao=1 << 16, meta={"cls": "run-at-token-buffer-fill", "cpu": ["host", "avx2", "sse"][(P // 6) % 3]})
    # every match length that begins or ends a length code, as the only long match of its block (a run of L+1 equal bytes between incompressible
    # letters): the symbol's count comes from one token only
    letters = [rng.choice(b"abcdefghijklmnopqrstuvwxyz") for _ in range(7000)]
    from defgen import LEN_BASE as _LB, LEN_EXTRA as _LE
    edge_lens = sorted(set([_LB[i] for i in range(29)] + [_LB[i] + (1 << _LE[i]) - 1 for i in range(28)] + [254, 255, 256, 257, 258]))
    for i, L in enumerate(edge_lens):
        if L < 4: continue
        inp = letters[:4500] + [ord("Q")] * (L + 1) + letters[4500:6500]
        for level in (1, 2, 3):
            if tier == "quick" and (i + level) % 3 and L < 227: continue
            add(api=["deflate_stateless", "deflate"][i % 2], inp=inp, level=level, wrap=[0, 1, 3][(i + level) % 3], lbuf=3, calls=[[len(inp), len(inp) + 600, 0, 1]], tail_ao=1 << 16, meta={"cls": "single-match-of-length-%d" % L, "cpu": CPUS[(i + level) % len(CPUS)]})
    # one far match per distance code, each with an odd extra-bits value (the last distance of the code), so that every distance symbol of the block
    # is counted exactly once
    once = []
    for ds in range(8, 30):
        d = defgen_DIST_BASE[ds] + (1 << defgen_DIST_EXTRA[ds]) - 1
        key = [rng.choice(hi_bytes) for _ in range(14)]
        seg = key + [97 + (i % 3) for i in range(d - len(key))]
        once += seg + key + [100 + (i % 3) for i in range(30 + ds)]
    for ci, cpu in enumerate(("avx512g2", "avx2", "base") if tier == "quick" else CPUS):
        for level in (1, 2, 3):
            for cut in (0, 1, 2, 3):          # (the length of the input shifts which token ends a batch of the level 3 match buffer)
                if tier == "quick" and (ci + level + cut) % 2: continue
                add(api=["deflate_stateless", "deflate"][(ci + level) % 2], inp=once[cut * 7:], level=level, wrap=[0, 1, 3][(ci + cut) % 3], lbuf=3, calls=[[len(once) - cut * 7, len(once) + 4000, 0, 1]], tail_ao=1 << 18, meta={"cls": "one-far-match-per-distance-code", "cpu": cpu})
    # tiny windows (hist_bits 1-8 are legal: "values of 1 to 15") with one dominant byte in groups of four between varying bytes: with a 2- or
    # 4-byte window the groups stay literals, and the dominant literal gets a 1-bit code, so several whole symbols share one output byte
    for hb in (2, 1, 3, 5, 8):
        grp = []
        for i in range(900): grp += [88, 88, 88, 88, rng.choice(range(97, 117))]
        for ci, cpu in enumerate(("avx512g2", "avx512", "avx2", "base")):
            for level in (1, 2, 3, 0):
                if tier == "quick" and (hb + ci + level) % 2 and hb not in (2,): continue
                add(api=["deflate_stateless", "deflate"][(ci + level) % 2], inp=grp, level=level, wrap=[0, 1, 3][(hb + level) % 3], hist_bits=hb, lbuf=3, calls=[[len(grp), len(grp) + 600, 0, 1]], tail_ao=1 << 16, meta={"cls": "dominant-literal-groups-tiny-window", "cpu": cpu})
    # incompressible input of exactly k * 65535 bytes (whole stored sub-blocks) with the output space at the documented bound and a little above:
    # whatever is reported as success must be a complete stream
    over = {0: 0, 1: 18, 2: 8, 3: 6, 4: 4}
    for n in (65535, 131070) if tier == "quick" else (65535, 131070, 196605, 65534, 65536):
        rnd = igz.corpus(rng, "random", n)
        for level in range(4):
            for wi, wrap in enumerate(wraps):
                if tier == "quick" and (level + wi + n // 65535) % 2: continue
                bound = n + 5 * max(1, (n + 65534) // 65535) + over[wrap]
                for slack in (-4, -1, 0, 2, 9):      # (below the bound the call may refuse; what it reports as success must still be complete)
                    add(api="deflate_stateless", inp=rnd, level=level, wrap=wrap, lbuf=3, calls=[[n, bound + slack, 0, 1]], meta={"cls": "whole-stored-sub-blocks-at-the-bound", "cpu": CPUS[(level + wi) % len(CPUS)]})
    # large inputs: stored-block splitting at 65535, 16-bit hash position wrap, internal buffer wrap
    big = [("random", 70000, 0), ("periodic", 200000, 2), ("text", 66000, 1), ("records", 36000 if tier == "quick" else 140000, 3)]
    if tier == "thorough":
        big += [("random", 65535 * 2 + 1, 1), ("random", 65535, 2), ("random", 65536, 3), ("runs", 300000, 1), ("text", 150000, 2), ("lowent", 100000, 3), ("zeros", 140000, 0), ("periodic", 70000, 1)]
    for i, (cls, n, level) in enumerate(big):
        inp = igz.corpus(rng, cls, n)
        for j, api in enumerate(["deflate_stateless", "deflate"]):
            if tier == "quick" and (i + j) % 2 == 1 and i > 1: continue
            wrap = wraps[(i + j) % 5]; cpu = CPUS[(i * 2 + j) % len(CPUS)]
            calls = [[n, n + n // 8 + 1000, 0, 1]] if api == "deflate_stateless" else [[30000, 17000, [0, 2, 1][(i + j) % 3], 1] for _ in range(n // 30000 + 1)]
            add(api=api, inp=inp, level=level, wrap=wrap, hist_bits=0, table=0, lbuf=[3, 0][j], calls=calls, tail_ao=17000, meta={"cls": cls, "cpu": cpu})
    return scns

def run(tier, replay=None):
    v = Verdict("C01", tier)
    rng = random.Random(seed() * 2654435761 % (1 << 31) + 1)
    wd = workdir("c01")
    if replay:
        rp = json.load(open(replay))["replay"]; scns = [rp["scenario"]]; scns[0]["meta"]["cpu"] = rp.get("cpu") or scns[0]["meta"].get("cpu")
    else:
        scns = gen(tier, rng)
    allres, allby, calls, faults = {}, {}, 0, 0
    recs_all = []
    for cpu in sorted(set(s["meta"].get("cpu") or "host" for s in scns)):
        sub = [s for s in scns if (s["meta"].get("cpu") or "host") == cpu]
        tf = igz.run_harness(sub, wd, cpu, cpu=None if cpu == "host" else cpu)
        recs, summ, by = igz.merge(sub, tf)
        calls += summ.get("calls", 0); faults += summ.get("faults", 0)
        recs_all += recs; allby.update(by)
    res, tlcwall = igz.judge("trace/TraceDeflate", recs_all, wd, "c01", shards=12 if tier == "thorough" else 8)
    for cpu in sorted(set(s["meta"].get("cpu") or "host" for s in scns)):
        sub = [s for s in scns if (s["meta"].get("cpu") or "host") == cpu]
        igz.report(v, sub, {s["scn"]: res[s["scn"]] for s in sub}, allby, cpu=cpu)
    nontriv = set()
    for s in scns:
        r = res[s["scn"]]
        if r["stats"]["match"] and (r["stats"]["nblocks"] >= 2 or len(s["inp"]) >= 65536) or len(s["inp"]) >= 65536:
            nontriv.add((s["meta"]["cls"], s["level"], s["wrap"], s["api"], s["meta"]["cpu"], s["hist_bits"]))
    types = {}
    for r in res.values():
        for t in r["stats"]["types"]: types[t] = types.get(t, 0) + 1
    cov = {"states": len(scns), "transitions": calls, "traces_validated_against_impl": len(scns), "evaluations": len(scns), "distinct_nontrivial": len(nontriv),
           "block_types_seen": types, "cpu_levels": sorted(set(s["meta"]["cpu"] for s in scns)), "tlc_wall_s": round(tlcwall, 1), "faults": faults,
           "state_machine_conformance": {"model": "spec/DeflateStreamOps.tla (tabulated by spec/gen/GenDeflateStream.tla)", "calls_not_in_model": igz.drift_count(res)},
           "rule": "scenarios = covering sample of {level 0-3} x {NO/SYNC/FULL flush} x {raw,gzip,gzip_nohdr,zlib,zlib_nohdr} x hist_bits {0,9..15} x {default,static,custom table (level 0)} x level_buf {MIN..EXTRA_LARGE} x simulated CPU level "
                   "{base,sse,avx,avx2,avx512,avx512+G2} x {one-shot, streaming} over an input corpus (empty, 1-16 B, lengths around ISAL_LOOK_AHEAD and 8K, incompressible, 0x00/0xFF runs, text, periodic, record-structured, >=64KiB); "
                   "each recorded trace is judged by TLC (TraceDeflate.tla): accounting rules per call, and at END Unwrap(wrapper, output) must be Valid, decode to exactly the input, end at the last byte, with the trailer matching the spec-computed CRC-32/ISIZE or Adler-32; "
                   "states = scenarios, transitions = recorded calls; distinct_nontrivial = distinct (class, level, wrapper, api, cpu, hist_bits) whose stream has a match and >=2 blocks or input >= 64 KiB",
           "samples": [igz.describe(scns[3]), igz.describe(scns[-1])]}
    cleanup(wd)
    return v.finish("model_checking", cov, ["TLC evaluates Deflate.tla/Wrappers.tla/Checksums.tla correctly (cross-checked against zlib-made streams in bin/selftest-spec)",
                                              "the harness records the bytes the library wrote", "simulated CPU levels answer CPUID/XGETBV through the re-assembled resolvers (cpuid_env.c)"])
