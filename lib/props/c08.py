"""C08 — RAID parity exact; checks sound and complete (direction G; Raid.tla is the oracle)."""
import os, random
from verif import *

MEMORY_KINDS = ("fault", "write-outside", "source-modified", "below-minimum-touches-memory")
def run(tier, replay=None, v=None, memory_only=False):
    own = v is None
    if own: v = Verdict("C08", tier)
    rng = random.Random(seed() * 104729 + 8)
    wd = workdir("c08")
    shapes = [(2, 352), (3, 416), (4, 320), (6, 608), (14, 352), (15, 320), (31, 320), (255, 320)]
    if memory_only: shapes = [(2, 352), (4, 320), (15, 320), (33, 352)]
    elif tier == "thorough":
        shapes += [(5, 2208), (8, 1120), (16, 640), (33, 416), (127, 352), (254, 320), (10, 4160)] + \
                  [(rng.randrange(2, 40), 32 * rng.randrange(10, 30)) for _ in range(10)]
    recs = []
    for i, (S, N) in enumerate(shapes):
        style = i % 3
        src = [[(rng.randrange(256) if style != 2 else rng.choice([0, 0, 0, 255, 128, 1])) for _ in range(N)] for _ in range(S)]
        recs.append({"id": i, "S": S, "N": N, "src": src})
    inp, outp = os.path.join(wd, "in.ndjson"), os.path.join(wd, "vec.ndjson")
    write_ndjson(inp, recs)
    r = tlc("gen/GenRaid", wd=wd, env={"VERIF_IN": inp, "VERIF_OUT": outp}, timeout=1800, xmx="8g")
    vecs = read_ndjson(outp)
    toks = [len(recs)]
    for rec, vec in zip(recs, vecs):
        if not (vec["horner_is_def"] and vec["recover_ok"]):
            raise Infra("Raid.tla lemma failed on vector %d (spec inconsistent): %r" % (rec["id"], {k: vec[k] for k in ("horner_is_def", "recover_ok")}))
        toks += [rec["id"], rec["S"], rec["N"]]
        for s in rec["src"]: toks += s
        toks += vec["P"] + vec["Q"]
    vf = os.path.join(wd, "vec.txt")
    open(vf, "w").write(" ".join(map(str, toks)))
    h = build_harness("h_raid", ["h_raid.c"])
    res = os.path.join(wd, "res.ndjson")
    sh([h, vf, res, "1" if tier == "thorough" else "8"], timeout=3300)
    out = read_ndjson(res)
    summ = [o for o in out if o["e"] == "summary"][0]
    for m in out:
        if m["e"] != "mismatch": continue
        if memory_only and m["what"] not in MEMORY_KINDS: continue
        v.violation("%s:%s" % (m["fn"], m["what"]), "%s %s: vector %d vects=%d len=%d placement=%d detail=%d,%d" %
                    (m["fn"], m["what"], m["vec"], m["vects"], m["len"], m["placement"], m["a"], m["b"]),
                    {"mismatch": m, "seed": seed(), "tier": tier, "vector_shape": [x for x in shapes][m["vec"]] if m["vec"] < len(shapes) else None})
    if summ["mismatches"] > 40 and not memory_only:
        v.violation("many", "%d mismatches" % summ["mismatches"], {"seed": seed()})
    if not own:
        cleanup(wd)
        return {"calls": summ["calls"], "faults": summ["faults"]}
    cov = {"evaluations": summ["calls"], "distinct_nontrivial": summ["corruptions"] + (summ["calls"] - summ["corruptions"]) // 2,
           "corruption_positions_checked": summ["corruptions"], "below_minimum_calls": summ["below_min_calls"], "vectors": len(recs),
           "source_counts": [s for s, _ in shapes], "faults": summ["faults"],
           "spec_lemmas": "Q Horner form = definition; two-erasure recovery from spec P,Q reproduces the data for 4 erased pairs per vector (TLC, all vectors)",
           "rule": "per vector (S sources x N bytes from VERIF_SEED; expected P,Q from Raid.tla via TLC): xor_gen{_base,_sse,_avx,_avx512,dispatched} for every len 0..N (all <300, stride beyond in quick), "
                   "pq_gen{_base,_sse,_avx,_avx2,_avx512,dispatched} for every multiple of 32, xor_check/pq_check{_base,_sse,dispatched} on the consistent array (must be 0) and with a single byte corrupted at "
                   "every (block,position) for len<=288,S<=16 and a stride-37 sample otherwise (must be non-zero); 3 placements (32B-aligned; end flush against an inaccessible page when len%32=0); "
                   "below-minimum vects with every pointer aimed at an inaccessible page must return non-zero without faulting; distinct_nontrivial = corruption points + half the remaining calls (len>0, non-base)",
           "samples": [{"id": recs[1]["id"], "S": recs[1]["S"], "N": recs[1]["N"], "src0_first8": recs[1]["src"][0][:8], "P_first8": vecs[1]["P"][:8], "Q_first8": vecs[1]["Q"][:8]}]}
    cleanup(wd)
    return v.finish("exploration", cov, ["TLC evaluates Raid.tla/GF256.tla correctly", "pointers 32-byte aligned and len multiples as documented in raid.h",
                                         "two-erasure recoverability follows from byte equality of real P,Q with the spec's P,Q plus the spec-level recovery lemma"])
