"""C14 — flush points are byte-aligned, complete and (full flush) independent."""
import os, random
from verif import *
import igz

def gen(tier, rng):
    scns = []
    def add(**kw):
        kw["scn"] = len(scns); scns.append(igz.scenario(**kw))
    k = 0
    inputs = [("text", 320), ("records", 600), ("runs", 900), ("random", 120), ("lowent", 300)]
    if tier == "thorough": inputs += [("text", 3000), ("periodic", 5000), ("records", 9000), ("zeros", 70000)]
    for cls, n in inputs:
        inp = igz.corpus(rng, cls, n)
        for level in range(4):
            for wrap in ([0, 1, 3] if tier == "quick" else range(5)):
                k += 1
                # (a) flush request at every position (n small) / sampled positions, one flush per stream, plentiful output
                pos = list(range(0, n + 1)) if n <= 130 else sorted(set([0, 1, 2, 3, 7, 8, n // 2, n - 1, n] + [rng.randrange(n + 1) for _ in range(5 if tier == "quick" else 30)]))
                for p in pos:
                    if tier == "quick" and (p + k) % 3 and n <= 130: continue
                    f = 1 + (p + k) % 2
                    add(api="deflate", inp=inp, level=level, wrap=wrap, lbuf=[0, 3][k % 2], calls=[[p, 1 << 16, f, 0], [n - p, 1 << 16, 0, 1]], meta={"family": "flush-at-position", "cls": cls})
                # (b) several flushes per stream with mode changes
                for rep in range(1 if tier == "quick" else 4):
                    step = rng.choice([17, 50, 100, 333])
                    calls = [[step, 1 << 16, rng.choice([1, 2, 1, 2, 0]), 0] for _ in range(n // step + 1)]
                    add(api="deflate", inp=inp, level=level, wrap=wrap, lbuf=3, mem=k % 3, calls=calls, meta={"family": "multi-flush", "cls": cls})
                # (c) output space chosen so that the flush (header / body / marker) stays pending, then new input + another flush request:
                #     sweep the first call's avail_out over every value up to the full size
                if n <= 700 and (tier == "thorough" or (k % 2 == 0)):
                    n1 = (2 * n) // 3
                    for f in (1, 2):
                        for ao in range(1, n1 + 40) if tier == "thorough" else list(range(1, 24)) + list(range(24, n1 + 40, 3)):
                            add(api="deflate", inp=inp, level=level, wrap=wrap, lbuf=3, calls=[[n1, ao, f, 0], [n - n1, 1 << 16, f, 0], [0, 1 << 16, f, 0]],
                                meta={"family": "pending-then-refill", "cls": cls})
                # (d) tiny output chunks so the marker is split across calls
                for ao in (1, 2, 3, 4, 5):
                    if tier == "quick" and (ao + k) % 2: continue
                    calls = [[n // 2, ao, 1 + (k + ao) % 2, 0]] * 1
                    add(api="deflate", inp=inp, level=level, wrap=wrap, lbuf=3, calls=calls + [[0, ao, 1 + (k + ao) % 2, 0]] * min(4 * n + 80, 3000) + [[n, 1 << 16, 2, 0]],
                        meta={"family": "split-marker", "cls": cls})
    # (f) FULL_FLUSH left pending by a call whose output filled up (every output size), then a call that supplies a COPY of the data before the
    #     flush point: independence (D7) requires that nothing after the marker refers back across it
    for n in ([300] if tier == "quick" else [300, 1000, 5000]):
        seg = [rng.choice(b"abcdefgh") for _ in range(n)]
        for ao in range(1, n + 60, 1 if n <= 300 else 3):
            for level in (range(4) if tier == "thorough" else [ao % 4]):
                add(api="deflate", inp=seg + seg, level=level, wrap=[0, 1, 3][ao % 3], lbuf=[3, 0][ao % 2], mem=ao % 3, calls=[[n, ao, 2, 0], [n, 1 << 16, [2, 0, 1][ao % 3], 0], [0, 1 << 16, 0, 1]],
                    meta={"family": "full-flush-pending-then-copy", "cls": "copy"})
    # (j) FULL_FLUSH at input positions beyond 64 KiB (the match finders keep 16-bit positions), in data that repeats with a period just under the
    #     32 KiB window: the bytes right after the flush point equal those one period earlier, so any stale or mis-seeded hash entry becomes a
    #     match that reaches back across the flush point
    k = 0
    for period in ((32767, 32765) if tier == "quick" else (32767, 32766, 32765, 32764, 32760, 16383)):
        base = igz.corpus(rng, "text", period)
        for fpos in ((65536, 70000, 98306, 131076) if tier == "quick" else (65536, 65538, 70000, 98306, 131072, 131076, 131080, 196612)):
            inp = (base * ((fpos + 40000) // period + 1))[:fpos + 40000]
            for level in range(4):
                add(api="deflate", inp=inp, level=level, wrap=[0, 1, 3][k % 3], lbuf=[3, 0][k % 2], mem=k % 3, calls=[[fpos, 1 << 18, 2, 0], [40000, 1 << 18, [0, 2][k % 2], 1]], tail_ao=1 << 18,
                    meta={"family": "full-flush-beyond-64KiB-periodic", "cls": "periodic"}); k += 1
    # (e) one-shot raw FULL_FLUSH followed by a terminating call: outputs appended
    for cls, n in [("text", 500), ("random", 300), ("empty", 0), ("runs", 2000), ("zeros", 8), ("zeros", 300), ("ff", 1001), ("zeros", 4096), ("ff", 70000)]:
        a, b = igz.corpus(rng, cls, n), igz.corpus(rng, "text", 200)
        for level in range(4):
            add(api="deflate_stateless", inp=a, level=level, wrap=0, lbuf=3, table=[0, 1][(n + level) % 2] if level == 0 else 0, calls=[[n, n * 2 + 100, 2, 0]], meta={"family": "oneshot-full-flush", "pair": len(scns) + 1})
            add(api="deflate_stateless", inp=b, level=level, wrap=0, lbuf=3, calls=[[200, 1000, 0, 1]], meta={"family": "oneshot-final"})
    # (g) the same, but the one-shot calls are made on ONE context and level buffer without re-initialisation (the documented way of appending blocks)
    xs = [("text", 500), ("random", 300), ("runs", 2000), ("zeros", 4096), ("random", 98304), ("records", 30000), ("lowent", 9000)]
    for i, (cls, n) in enumerate(xs if tier == "quick" else xs + [("text", 70000), ("ff", 70000), ("random", 66000)]):
        a, b, c = igz.corpus(rng, cls, n), igz.corpus(rng, "text", 2000), igz.corpus(rng, ["random", "records", "zeros"][i % 3], 700)
        for level in range(4):
            for lbuf in ([0, 3] if level else [3]):
                add(api="deflate_stateless_multi", inp=a + b, level=level, wrap=0, lbuf=lbuf, prefill=i % 3, calls=[[n, n * 2 + 600, 2, 0], [2000, 5000, 0, 1]], meta={"family": "oneshot-append-same-context"})
                add(api="deflate_stateless_multi", inp=b + a + c, level=level, wrap=0, lbuf=lbuf, prefill=i % 3, calls=[[2000, 5000, 2, 0], [n, n * 2 + 600, 2, 0], [700, 2000, 0, 1]], meta={"family": "oneshot-append-same-context"})
    # (h) a level buffer at an unaligned address (no alignment is documented): the match history is re-initialised at every full flush and at
    #     every one-shot piece after the first, so independence and round trip are checked there
    for cls, n in [("text", 6000), ("records", 30000)]:
        inp = igz.corpus(rng, cls, n)
        for level in range(1, 4):
            for lb in (7, 8, 9, 10):
                add(api="deflate", inp=inp, level=level, wrap=[0, 1, 3][(level + lb) % 3], lbuf=lb, mem=(level + lb) % 3, prefill=lb % 3,
                    calls=[[n // 3, 1 << 17, 2, 0], [n // 3, 1 << 17, [2, 1, 0][lb % 3], 0], [n, 1 << 17, 2, 0], [0, 1 << 17, 0, 1]], tail_ai=n, tail_ao=1 << 17, cap=60, meta={"family": "unaligned-level-buffer"})
                add(api="deflate_stateless_multi", inp=inp, level=level, wrap=0, lbuf=lb, prefill=lb % 3, calls=[[n // 2, n + 600, 2, 0], [n, n + 600, 0, 1]], meta={"family": "unaligned-level-buffer"})
    return scns

def pending_marker_family(tier, rng, wd, first):
    """(i) A FULL_FLUSH whose marker is left in the library's staging buffer (the first call's output ends inside or just before the
    00 00 FF FF marker), completed by a call that keeps FULL_FLUSH and brings more input - a copy of the data before the flush point, short
    or longer than the internal buffer.  The first call's compressed size is learnt from a probe run of the library, then avail_out is
    swept over the 15 values around it."""
    probes, combos = [], []
    for n in ([300, 3000] if tier == "quick" else [300, 3000, 20000]):
        seg = [rng.choice(b"abcdefgh") for _ in range(n)]
        for level in range(4):
            wrap, lbuf, mem = [0, 1, 3][(level + n) % 3], [3, 0][(level + n // 100) % 2], (level + n) % 3
            probes.append(igz.scenario(scn=len(probes), api="deflate", inp=seg, level=level, wrap=wrap, lbuf=lbuf, mem=mem, calls=[[n, 1 << 17, 2, 0], [0, 1 << 17, 0, 1]], meta={"family": "probe"}))
            combos.append((seg, level, wrap, lbuf, mem))
    recs, summ, by = igz.merge(probes, igz.run_harness(probes, wd, "c14probe"))
    out = []
    for pr, (seg, level, wrap, lbuf, mem) in zip(probes, combos):
        cl = by[pr["scn"]]["calls"]
        if not cl: continue
        n, c1 = len(seg), cl[0]["p"]
        for s2 in ([n, 70000] if tier == "quick" else [n, 70000, 200000]):
            tail = (seg * (s2 // n + 1))[:s2]
            # (and, further back, sizes that leave the end of the block itself pending: level 0 commits to the marker as soon as it
            #  enters its finish routine)
            far = [a for a in range(c1 - 330, c1 - 13, 7) if a >= 1 and s2 > n and (level == 0 or tier == "thorough")]
            for ao in far + list(range(max(1, c1 - 13), c1 + 2)):
                if s2 > n and tier == "quick" and not (ao <= c1 - 1 and (ao >= c1 - 10 or ao in far)): continue
                for variant in range(6 if s2 == n else 1):
                    # (variants 3-5: the completing call brings the new input with only 10 / 12 / 14 bytes of room, so a few bytes are left behind the marker)
                    calls = [[n, ao, 2, 0]] + ([[s2, 1 << 20, 2, 1]] if variant == 0 else [[s2, 1 << 20, 2, 0], [0, 1 << 17, 0, 1]] if variant == 1 else [[0, 3, 2, 0], [s2, 1 << 20, 2, 0], [0, 1 << 17, 0, 1]] if variant == 2
                                              else [[s2, 4 + 2 * variant, [2, 1][variant % 2], 0], [0, 1 << 17, 2, 0], [0, 1 << 17, 0, 1]])
                    out.append(igz.scenario(scn=first + len(out), api="deflate", inp=seg + tail, level=level, wrap=wrap, lbuf=lbuf, mem=mem, calls=calls, tail_ao=1 << 17,
                                            meta={"family": "full-flush-marker-staged-then-more-input", "cls": "copy"}))
    return out

def run(tier, replay=None):
    v = Verdict("C14", tier)
    rng = random.Random(seed() * 40692 % (1 << 31) + 14)
    wd = workdir("c14")
    # the design-level argument for full-flush independence across calls (spec/FullFlushHistory.tla): the repaired design satisfies
    # NoCrossReference; the original one and the half-repaired one violate it, and the call histories TLC finds for them are the ones the
    # family 'full-flush-marker-staged-then-more-input' below drives through the real library
    ffh = {}
    for var in ("fixed", "orig", "resetonly"):
        ffh[var] = tlc_cached("mc/MCFullFlushHistory", cfg="MCFullFlushHistory_%s.cfg" % var, wd=wd, workers=2, timeout=300, allow_violation=(var != "fixed"))
    if not ffh["fixed"]["ok"]: raise Infra("FullFlushHistory.tla: the repaired design violates NoCrossReference")
    if ffh["orig"]["ok"] or ffh["resetonly"]["ok"]: raise Infra("FullFlushHistory.tla: an unrepaired variant no longer violates NoCrossReference: the model lost its meaning")
    scns = [json.load(open(replay))["replay"]["scenario"]] if replay else gen(tier, rng)
    if not replay: scns += pending_marker_family(tier, rng, wd, len(scns))
    tf = igz.run_harness(scns, wd, "c14")
    recs, summ, by = igz.merge(scns, tf)
    # appended one-shot outputs
    extra = []
    for s in scns:
        if s["meta"].get("family") == "oneshot-full-flush" and not replay:
            r1, r2 = by[s["scn"]], by[s["meta"]["pair"]]
            if r1["calls"] and r2["calls"] and r1["calls"][0]["ret"] == 0 and r2["calls"][0]["ret"] == 0:
                out = r1["calls"][0]["out"] + r2["calls"][0]["out"]
                cs = dict(scns[s["scn"]], scn=len(scns) + len(extra), api=9, inp=s["inp"] + scns[s["meta"]["pair"]]["inp"], meta={"family": "appended"})
                extra.append(cs)
                recs.append({"scn": cs["scn"], "api": 9, "level": s["level"], "wrap": 0, "hist_bits": 0, "lbuf": 3, "dict": [], "inp": cs["inp"],
                             "calls": [{"out": out}], "end": {"why": "oneshot", "state": "END"}, "expect_ret": 0, "complete_supply": True})
                by[cs["scn"]] = dict(cs, calls=[{"out": out}])
    # several one-shot calls on one context: the appended outputs must form one valid stream of the concatenated input
    for s in scns:
        if s["api"] != 4: continue
        cl = by[s["scn"]]["calls"]
        recs[:] = [r for r in recs if r["scn"] != s["scn"]]
        if len(cl) == len(s["calls"]) and all(c["ret"] == 0 for c in cl):
            out = [b for c in cl for b in c["out"]]
            recs.append({"scn": s["scn"], "api": 9, "level": s["level"], "wrap": 0, "hist_bits": 0, "lbuf": s["lbuf"], "dict": [], "inp": s["inp"],
                         "calls": [{"out": out}], "end": {"why": "oneshot", "state": "END"}, "expect_ret": 0, "complete_supply": True})
        else:
            v.violation("one-shot-append:call-failed", "one-shot calls on one context: %s" % [(c["ret"], c["c"], c["p"]) for c in cl] + (" (fault)" if "fault" in by[s["scn"]] else ""), igz.replay_record(s))
    res, tw = igz.judge("trace/TraceDeflate", recs, wd, "c14", shards=14)
    igz.report(v, scns + extra, res, by)
    fp = sum(r["flush_points"] for r in res.values()); full = sum(r["full_points"] for r in res.values())
    fam = {}
    for s in scns: fam[s["meta"]["family"]] = fam.get(s["meta"]["family"], 0) + 1
    cov = {"states": len(scns), "transitions": summ.get("calls", 0), "traces_validated_against_impl": len(scns) + len(extra), "evaluations": len(scns), "distinct_nontrivial": fp,
           "flush_points_judged": fp, "completed_full_flush_points": full, "families": fam,
           "full_flush_history_model": {"module": "spec/FullFlushHistory.tla", "repaired_design_distinct_states": ffh["fixed"]["distinct"], "original_design_violates": True, "reset_only_design_violates": True},
           "state_machine_conformance": {"model": "spec/DeflateStreamOps.tla (tabulated by spec/gen/GenDeflateStream.tla)", "calls_not_in_model": igz.drift_count(res)},
           "rule": "flush requests at every input position (small inputs) / sampled positions, several per stream with mode changes, first-call avail_out swept over every value so the header/body/marker stays pending and the next call supplies new input with another flush, "
                   "1-5 byte output chunks splitting the 00 00 FF FF marker; at every call that returns with flush in {SYNC,FULL}, all input consumed and space left TLC decodes the output so far (incrementally): it must end on a byte boundary after an empty stored block and decode to everything fed; "
                   "after each completed FULL flush no later block may reference data before the flush point (per-block minimum reference from the decoder) and the first suffix is decoded in isolation; the same holds at the marker written for a FULL_FLUSH request that ran out of output space and was kept by every following call until there was room (the first call's output size is swept around the compressed size learnt from a probe run; the completing call brings a copy of the earlier data, short or longer than the internal buffer); FULL_FLUSH at input positions beyond 64 KiB in data with a period just under the window; one-shot raw FULL_FLUSH output + a terminated output appended must be one valid stream. distinct_nontrivial = flush points judged",
           "samples": [igz.describe(scns[2]), igz.describe(scns[len(scns) // 2])]}
    cleanup(wd)
    return v.finish("model_checking", cov, ["TLC evaluates the decoder/contract correctly", "a flush point is 'complete' per the property: call returned with avail_in=0 and avail_out>0 and end_of_stream not set; a FULL_FLUSH request kept over several calls completes where its marker is written"])
