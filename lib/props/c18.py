"""C18 — custom Huffman tables built from any histogram are valid and usable."""
import os, random
from verif import *
import igz

NS = 286 + 30
def enc48(v): return [v & 0xffffff, (v >> 24) & 0xffffff, (v >> 48) & 0xffff]
def hist_bytes(h):
    out = []
    for v in h: out += [(v >> (8 * b)) & 255 for b in range(6)]
    return out

def histograms(rng, tier):
    H = []
    def add(name, ll, d): H.append((name, list(ll) + [0] * (286 - len(ll)), list(d) + [0] * (30 - len(d))))
    add("all-zero", [], [])
    add("single-literal", [0] * 65 + [7], [])
    add("two-symbols", [5, 9], [1])
    add("uniform", [3] * 286, [3] * 30)
    add("powers-of-two", [1 << min(i, 43) for i in range(286)], [1 << min(i, 43) for i in range(30)])
    fib = [1, 1]
    while len(fib) < 286: fib.append(min(fib[-1] + fib[-2], (1 << 44) - 1))
    add("fibonacci", fib, fib[:30])
    add("fibonacci-reversed", fib[::-1], fib[:30][::-1])
    add("huge-values", [(1 << 44) - 1 - i for i in range(286)], [(1 << 44) - 1] * 30)
    add("eob-zero-sparse", [1 << (40 - i) for i in range(40)], [1] + [0] * 28 + [1 << 43])          # literals 0..39 only, EOB count 0
    add("only-lengths", [0] * 257 + [9] * 29, [1] * 30)
    add("one-distance", [4] * 286, [0] * 7 + [1000])
    add("steep", [1] * 200 + [1 << 30] * 86, [1, 1 << 40])
    # match length 258 (symbol 285, no extra bits) as rare as the rarest literal while the other lengths are common, and the farthest distance
    # symbol rare: literal + length + distance written together are longest for exactly this combination
    for shift in (0, 3, 6):
        ll = [0] * 286; d = [0] * 30
        for i in range(30): ll[i] = fib[i + shift]
        for i in range(257, 285): ll[i] = 1 << 42
        ll[256] = 1 << 42; ll[285] = 1
        for i in range(29): d[i] = fib[i + 2 + shift]
        d[29] = 1
        add("rare-258-and-farthest-distance-%d" % shift, ll, d)
    # literal alphabets with a gap of exactly g unused symbols (the subset builder leaves them without a code, and the stored header run-length
    # encodes the zero lengths: 3, 10/11, 138/139 and multiples are where the repeat codes change over), with ordinary length / distance counts
    for g in (3, 10, 11, 12, 137, 138, 139, 140, 148, 149, 276):
        for where in ("below-eob", "middle", "start"):
            if g > 250 - 20: continue
            ll = [0] * 286; d = [0] * 30
            used = list(range(256 - g - 40, 256 - g)) if where == "below-eob" else (list(range(10, 10 + 20)) + list(range(10 + 20 + g, min(256, 10 + 20 + g + 20)))) if where == "middle" else list(range(g, min(256, g + 40)))
            for i_ in used: ll[i_] = 50 + (i_ * 7) % 90
            ll[256] = 10
            for i_ in range(257, 286): ll[i_] = 20 + i_ % 11
            for i_ in range(30): d[i_] = 15 + i_ % 7
            add("literal-gap-%d-%s" % (g, where), ll, d)
    for i in range(24 if tier == "quick" else 120):
        k = rng.choice([2, 5, 30, 286]); sh = rng.choice([0, 8, 30, 43])
        ll = [0] * 286
        for s in rng.sample(range(286), k): ll[s] = rng.randrange(1, 1 << rng.choice([1, 8, 20])) << rng.randrange(sh + 1)
        d = [rng.randrange(0, 1 << rng.choice([1, 10])) << rng.randrange(sh + 1) if rng.random() < 0.7 else 0 for _ in range(30)]
        add("random-%d" % i, ll, d)
    return H

def run(tier, replay=None):
    v = Verdict("C18", tier)
    rng = random.Random(seed() * 1103515245 % (1 << 31) + 18)
    wd = workdir("c18")
    H = histograms(rng, tier)
    toks, meta = [], {}
    nid = 0
    for name, ll, d in H:
        for builder in (0, 1):
            toks += [nid, builder, 0]
            for x in ll + d: toks += enc48(x)
            meta[nid] = {"hist": name, "builder": builder, "source": "explicit"}; nid += 1
    datas = [("text", 3000), ("random", 2000), ("zeros", 4000), ("records", 5000), ("lowent", 800), ("runs", 3000)]
    for cls, n in datas:
        d = igz.corpus(rng, cls, n)
        for source in (1, 2, 3, 4):
            for builder in (0, 1):
                toks += [nid, builder, source, len(d)] + d
                meta[nid] = {"hist": "collected-" + cls, "builder": builder, "source": ["", "dispatched", "base", "01", "04"][source]}; nid += 1
    sf, tr, of = os.path.join(wd, "hist.txt"), os.path.join(wd, "tables.ndjson"), os.path.join(wd, "out.ndjson")
    open(sf, "w").write(" ".join(map(str, toks)))
    h = build_harness("h_huff", ["h_huff.c"])
    sh([h, sf, tr], timeout=600)
    tlc("trace/TraceHuff", wd=wd, env={"VERIF_IN": tr, "VERIF_OUT": of}, timeout=1800, xmx="6g")
    for o in read_ndjson(of):
        m = meta[o["id"]]
        for why in o["viol"]:
            v.violation("table:%s:%s%s" % (why, "subset" if m["builder"] else "default", ":eob-count-zero" if (m["hist"] in ("eob-zero-sparse",) and why == "no-end-of-block-code") else ""),
                        "isal_create_hufftables%s from histogram '%s' (%s): %s" % ("_subset" if m["builder"] else "", m["hist"], m["source"], why), {"meta": m, "id": o["id"], "histogram": [x for x in H if x[0] == m["hist"]][:1]})
    ntables = nid
    # usability: compress data with the tables at level 0, all flush modes; subset builder only with data whose literals had non-zero counts
    scns = []
    def add(**kw):
        kw["scn"] = len(scns); scns.append(igz.scenario(**kw))
    # the first call's output room swept over every small value, with a gzip / zlib header to be written in front of the custom block header, and a
    # table installation attempted after every call (static and custom in turn): the header may be left half written at any byte
    for cls in ("text", "lowent"):
        data = igz.corpus(rng, cls, 900)
        for wrap in (1, 3):
            for table in (2, 3):
                for ao in range(1, 200 if tier == "quick" else 400, 1 if tier == "thorough" or cls == "text" else 3):
                    add(api="deflate", inp=data, level=0, wrap=wrap, table=table, calls=[[450, ao, [0, 1, 2][ao % 3], 0], [450, 1 << 16, 0, 1]], tail_ao=1 << 16, meta={"hist": "collected-" + cls + "-first-output-sweep", "table": table})
    k = 0
    for name, ll, d in H:
        for table in (4, 5):
            if table == 5:
                lits = [i for i in range(256) if ll[i] > 0]
                if not lits: continue
                data = [rng.choice(lits) for _ in range(600)] + [rng.choice(lits)] * 40
            else:
                data = igz.corpus(rng, ["text", "runs", "random"][k % 3], 700)
            for flush in (0, 1, 2):
                step = [700, 97][k % 2]
                add(api="deflate", inp=data, level=0, wrap=[0, 1, 3][k % 3], table=table, dictmode=3, dct=hist_bytes(ll + d),
                    calls=[[step, [1 << 16, 50][(k // 2) % 2], flush, 1] for _ in range(len(data) // step + 2)], tail_ao=1 << 16, meta={"hist": name, "table": table}); k += 1
            add(api="deflate_stateless", inp=data, level=0, wrap=0, table=table, dictmode=3, dct=hist_bytes(ll + d), calls=[[len(data), 4000, 0, 1]], meta={"hist": name, "table": table})
            if name.startswith("rare-258"):
                # data that makes the encoder write its longest triple: a 258-byte match at a distance beyond 24576 followed at once by one of the
                # rarest literals, at every bit offset (the fillers vary the pending bits)
                big = [rng.choice(range(20, 30)) for _ in range(25000)]
                for j in range(60):
                    big += [rng.choice(range(20, 30)) for _ in range(3 + j % 7)]
                    src = len(big) - 24600 - (j % 5) * 300
                    big += big[src:src + 258] + [j % 6]
                add(api="deflate_stateless", inp=big, level=0, wrap=0, table=table, dictmode=3, dct=hist_bytes(ll + d), calls=[[len(big), len(big) * 2, 0, 1]], meta={"hist": name, "table": table})
                add(api="deflate", inp=big, level=0, wrap=1, table=table, dictmode=3, dct=hist_bytes(ll + d), calls=[[9000, 1 << 16, [0, 1, 2][k % 3], 1]] * (len(big) // 9000 + 1), meta={"hist": name, "table": table})
            # a long constant run first (the one-shot repeated-character fast path), then data: the custom header is then written
            # at an arbitrary bit offset through the unaligned one-shot path
            for r in ((0, 3) if tier == "quick" else (0, 1, 2, 3, 5, 7, 11)):
                pre = [[0, 255][(k + r) % 2]] * (4096 + r * 37 + k % 5)
                add(api="deflate_stateless", inp=pre + data[:300], level=0, wrap=[0, 1][r % 2], table=table, dictmode=3, dct=hist_bytes(ll + d),
                    calls=[[len(pre) + 300, 6000, 0, 1]], meta={"hist": name, "table": table}); k += 1
    for cls, n in datas:
        data = igz.corpus(rng, cls, n)
        for table in (2, 3):
            for flush in (0, 1, 2):
                add(api="deflate", inp=data, level=0, wrap=k % 5, table=table, calls=[[333, 100, flush, 1] for _ in range(n // 333 + 2)], tail_ao=4096, meta={"hist": "collected-" + cls, "table": table}); k += 1
    tf = igz.run_harness(scns, wd, "c18")
    recs, summ, by = igz.merge(scns, tf)
    for r, s in zip(recs, scns):
        if s["dictmode"] == 3: r["dict"] = []           # the dict field carried the histogram, not a dictionary
    res, tw = igz.judge("trace/TraceDeflate", recs, wd, "c18", shards=10)
    byid = {s["scn"]: s for s in scns}
    def shape(rule, s):
        return ":subset-table-eob-count-zero" if (s["meta"]["hist"] == "eob-zero-sparse" and s["meta"]["table"] == 5) else ""
    for scn, r in res.items():
        for seq, rule in r["viol"]:
            s = byid[scn]
            v.violation("use:%s%s" % (rule, shape(rule, s)), "%s compressing with table from histogram '%s' (mode %d) scenario %d call %d" % (rule, s["meta"]["hist"], s["meta"]["table"], scn, seq), igz.replay_record(s))
    refused = sum(1 for s in scns for c in by[s["scn"]]["calls"] if c.get("sh", 99) not in (0, 99))
    cov = {"evaluations": ntables + len(scns), "distinct_nontrivial": ntables, "tables_validated": ntables, "compress_scenarios": len(scns), "set_hufftables_refusals_observed": refused,
           "histograms": [x[0] for x in H],
           "rule": "histograms: all-zero, single symbol, two symbols, uniform, powers of two up to 2^43, Fibonacci (depth limiting), values near 2^44, sparse with zero end-of-block count, lengths only, one distance, random sparse/steep, and histograms collected from data by "
                   "isal_update_histogram{,_base,_01,_04}; both builders; TLC (HuffTables!Validate) parses the stored header with the RFC 1951 header parser of Deflate.tla and requires complete prefix codes, lengths <= 15, an EOB code, lit+len+dist <= 56 bits, "
                   "and lit/len/dist tables equal to the bit-reversed canonical codes; then data (subset: only literals with non-zero count) is compressed with each table at level 0 in NO/SYNC/FULL flush, one-shot and streaming, and judged as in C01; "
                   "isal_deflate_set_hufftables is attempted after every call and must be refused unless the state is at a block boundary",
           "samples": [{"histogram": H[5][0], "first_counts": H[5][1][:10]}, igz.describe(dict(scns[0], dict=[]))]}
    cleanup(wd)
    return v.finish("exploration", cov, ["HuffTables.tla states table validity; the documented struct layout of isal_hufftables (code << 5 | length; bit-reversed codes) is transcribed from igzip_lib.h comments",
                                         "default (non LONGER_HUFFTABLE) build: 2-entry packed distance table"])
