"""C20 — zero detection exact (exhaustive in (variant, len<=N, alignment, position))."""
import os
from verif import *
def run(tier, replay=None, v=None, memory_only=False):
    own = v is None
    if own: v = Verdict("C20", tier)
    wd = workdir("c20")
    N = 4400 if tier == "thorough" else 700
    if memory_only: N = 400
    h = build_harness("h_mem", ["h_mem.c"])
    dump, res = os.path.join(wd, "mem.ndjson"), os.path.join(wd, "res.json")
    sh([h, dump, str(N), "0" if memory_only else "2" if tier == "quick" else "4"], timeout=3300)
    tlc("trace/TraceMemZero", wd=wd, env={"VERIF_IN": dump, "VERIF_OUT": res}, timeout=900)
    r = read_ndjson(res)[0]
    if not r["spec_ok"]: raise Infra("MemZero.tla self-check failed")
    allrecs = read_ndjson(dump)
    recs = [x for x in allrecs if "huge" not in x]; huge = [x for x in allrecs if "huge" in x]
    fns = sorted(set(x["fn"] for x in recs))
    if r["records"] != len(fns) * (N + 1) + len(huge) or (not memory_only and len(huge) != len(fns)): raise Infra("incomplete dump")
    for b in r["bad"][:40]:
        if "huge" in b:
            v.violation("%s:huge-length" % b["fn"], "%s: wrong answer or fault for a region of %d MiB + 3000 bytes (case %d of: non-zero byte just past 2^32 / last byte / all zero / byte at 2^31+5; %d of %d correct, %d faults)" %
                        (b["fn"], b["len_mib"], b["bad_case"], b["correct"], b["cases"], b["faults"]), {"record": b})
            continue
        if memory_only and not b["faults"]: continue
        what = ("fault" if b["faults"] else "all-zero region reported non-zero" if b["zero_wrong"] else "non-zero byte not detected")
        v.violation("%s:%s" % (b["fn"], what.split()[0]), "%s: %s at len=%d (placement idx %d, position %d; %d/%d positions detected)" %
                    (b["fn"], what, b["len"], b["bad_a"], b["bad_pos"], b["detected"], b["positions"]), {"record": b, "N": N})
    tot = sum(x["positions"] + x["placements"] for x in recs)
    if not own:
        cleanup(wd)
        return {"calls": tot, "faults": sum(x["faults"] for x in recs)}
    cov = {"evaluations": tot, "distinct_nontrivial": sum(x["positions"] for x in recs), "exhaustive": True, "N": N, "variants": fns, "huge_length_cases": sum(x["cases"] for x in huge),
           "rule": "for every variant, every len in 0..N, placements {end flush against an inaccessible page, start flush, interior at every alignment 0..63 for len<200 and 8 spread alignments beyond}: "
                   "all-zero region with 0xFF neighbours must return 0; dense contents (whole region / last 16,32,64,128 bytes non-zero) must return non-zero; a region of 4 GiB + 3000 bytes (sparse, zero page) with one non-zero byte past 2^32 and all-zero; a single non-zero byte (0x01/0x80/0xFF rotating) at EVERY position must return non-zero; no access may fault. "
                   "Aggregates per (variant,len) are judged by TLC against MemZero.tla; distinct_nontrivial = (variant,len,placement,position) points with a non-zero byte",
           "samples": [recs[5], recs[len(recs) // 2]]}
    cleanup(wd)
    return v.finish("exploration", cov, ["aggregation in h_mem.c (counts per (variant,len)) is faithful", "TLC evaluates MemZero.tla correctly"])
