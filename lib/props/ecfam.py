"""C03 / C13 shared machinery: driver picks coefficients/sources/orders (inputs only), TLC evaluates
spec/EC.tla to produce expected parity (spec/gen/GenEC.tla), the harness replays into every entry point."""
import os, json, random
from verif import *

def mk_coef(rng, rows, k, style):
    if style == "random": return [[rng.randrange(256) for _ in range(k)] for _ in range(rows)]
    if style == "edge":
        pool = [0, 1, 2, 255, 128, 29, 142]
        m = [[rng.choice(pool) for _ in range(k)] for _ in range(rows)]
        m[0] = [0] * k
        if rows > 1: m[1] = [1] * k
        if rows > 2: m[2] = [1 if j == 2 % k else 0 for j in range(k)]
        return m
    raise ValueError

def mk_src(rng, k, N, style):
    out = []
    for j in range(k):
        if style == "random": out.append([rng.randrange(256) for _ in range(N)])
        elif style == "ramp": out.append([(i * (j + 1) + j) % 256 for i in range(N)])
        else: out.append([rng.choice([0, 0, 255, 1, 0x80]) for _ in range(N)])
    return out

def enc_inputs(tier, rng):
    shapes = [(1, 1, 320), (2, 3, 600), (3, 2, 330), (4, 5, 600), (5, 7, 420), (10, 4, 600), (10, 6, 640),
              (16, 11, 400), (32, 12, 330), (127, 13, 200), (10, 13, 700), (6, 8, 380), (7, 9, 350), (12, 10, 345)]
    if tier == "thorough":
        shapes += [(255, 5, 400), (10, 7, 2200), (17, 14, 1100), (21, 16, 520), (64, 6, 900), (8, 15, 777)]
        shapes += [(rng.randrange(1, 40), rng.randrange(1, 14), rng.randrange(330, 900)) for _ in range(24)]
    recs = []
    for i, (k, rows, N) in enumerate(shapes):
        recs.append({"kind": "enc", "id": i, "k": k, "rows": rows, "N": N,
                     "coef": mk_coef(rng, rows, k, "edge" if i % 4 == 3 else "random"),
                     "src": mk_src(rng, k, N, ["random", "random", "ramp", "sparse"][i % 4])})
    return recs

def upd_inputs(tier, rng):
    shapes = [(1, 1, 320), (2, 2, 400), (3, 5, 420), (4, 3, 600), (5, 6, 400), (6, 7, 380), (8, 4, 350), (10, 12, 340), (16, 13, 330), (4, 11, 360)]
    if tier == "thorough":
        shapes += [(32, 6, 420), (10, 7, 2200), (64, 5, 400), (9, 14, 900)]
        shapes += [(rng.randrange(1, 20), rng.randrange(1, 14), rng.randrange(330, 700)) for _ in range(12)]
    recs = []
    for i, (k, rows, N) in enumerate(shapes):
        idx = list(range(k))
        style = i % 4
        if style == 0: order = idx
        elif style == 1: order = idx[::-1]
        elif style == 2: order = rng.sample(idx, k)
        else:
            order = rng.sample(idx, k)
            x = rng.randrange(k)
            order = order + [x, x]      # applied twice more: cancels
        if len(order) > 12 and tier == "quick":
            order = order[:12]
        recs.append({"kind": "upd", "id": 100 + i, "k": k, "rows": rows, "N": N,
                     "coef": mk_coef(rng, rows, k, "edge" if i % 5 == 4 else "random"),
                     "src": mk_src(rng, k, N, ["random", "ramp", "random", "sparse"][i % 4]), "order": order})
    return recs

MEMORY_KINDS = ("fault", "write-outside-destination", "write-outside-source", "source-modified")

def run_family(pid, tier, kind, entries_rule, v=None, memory_only=False):
    own = v is None
    if own: v = Verdict(pid, tier)
    rng = random.Random(seed() * 7919 + (3 if kind == "enc" else 13))
    wd = workdir(pid.lower() + kind)
    recs = enc_inputs(tier, rng) if kind == "enc" else upd_inputs(tier, rng)
    if memory_only:      # C05: a reduced vector set; only accesses outside the declared buffers are reported
        recs = [r for i, r in enumerate(recs) if i % 3 == 0 or r["rows"] in (5, 6, 7, 13)][:6]
    if kind == "upd":   # constant multiply (gf_vect_mul*) belongs to C13
        for i, c in enumerate([0, 1, 2, 29, 0x8e, 255] + ([rng.randrange(256) for _ in range(10)] if tier == "thorough" else [])):
            n = 32 * (12 + i)
            recs.append({"kind": "mul", "id": 200 + i, "c": c, "N": n, "src": [rng.randrange(256) for _ in range(n)]})
    inp, outp = os.path.join(wd, "in.ndjson"), os.path.join(wd, "vec.ndjson")
    write_ndjson(inp, recs)
    r = tlc("gen/GenEC", wd=wd, env={"VERIF_IN": inp, "VERIF_OUT": outp}, timeout=1800, xmx="8g")
    vecs = read_ndjson(outp)
    if len(vecs) != len(recs): raise Infra("GenEC produced %d of %d vectors" % (len(vecs), len(recs)))
    # int stream for the C harness
    toks = [len(recs)]
    for rec, vec in zip(recs, vecs):
        assert rec["id"] == vec["id"]
        if rec["kind"] == "mul":
            toks += [2, rec["id"], rec["c"], rec["N"]] + rec["src"] + vec["exp"]
            continue
        toks += [0 if kind == "enc" else 1, rec["id"], rec["k"], rec["rows"], rec["N"]]
        for row in rec["coef"]: toks += row
        for s in rec["src"]: toks += s
        if kind == "enc":
            for row in vec["exp"]: toks += row
        else:
            if vec["perm"] and not vec["equals_encode"]:
                raise Infra("EC.tla lemma failed: full update pass differs from Encode (spec inconsistent)")
            toks.append(len(rec["order"])); toks += rec["order"]
            for step in vec["after"]:
                for row in step: toks += row
    vf = os.path.join(wd, "vec.txt")
    with open(vf, "w") as f: f.write(" ".join(map(str, toks)))
    h = build_harness("h_ec", ["h_ec.c"])
    res = os.path.join(wd, "res.ndjson")
    lenstep = 1 if tier == "thorough" else 5
    sh([h, vf, res, str(lenstep)], timeout=3300)
    out = read_ndjson(res)
    summ = [o for o in out if o["e"] == "summary"][0]
    for m in out:
        if m["e"] != "mismatch": continue
        if memory_only and m["what"] not in MEMORY_KINDS: continue
        key = "%s_%s:%s" % (m["entry"], m["isa"], m["what"])
        v.violation(key, "%s (%s) %s: vector %d len=%d placement=%d off=%d row=%d pos=%d" %
                    (m["entry"], m["isa"], m["what"], m["vec"], m["len"], m["placement"], m["off"], m["row"], m["pos"]),
                    {"mismatch": m, "vector_input": ([x for x in recs if x["id"] == m["vec"]] or [None])[0], "seed": seed(), "tier": tier})
    if summ["mismatches"] > 40 and not memory_only:
        v.violation("many", "%d mismatches in total" % summ["mismatches"], {"seed": seed()})
    if not own:
        cleanup(wd)
        return {"calls": summ["calls"], "faults": summ["faults"], "entries": sum(1 for a in summ["entries"].values() for c in a if c > 0)}
    ent = summ["entries"]
    names = (["ec_encode_data", "gf_vect_dot_prod"] + ["gf_%dvect_dot_prod" % n for n in range(2, 7)] + ["-"] +
             ["ec_encode_data_update", "gf_vect_mad"] + ["gf_%dvect_mad" % n for n in range(2, 7)] + ["-"])
    covered = sorted("%s_%s" % (names[i], isa) for isa, a in ent.items() for i, c in enumerate(a) if c > 0)
    cov = {"evaluations": summ["calls"], "distinct_nontrivial": summ["calls"] - sum(1 for _ in recs) * 3 * len(ent),
           "rule": entries_rule, "vectors": len(recs), "gf_vect_mul_calls": summ.get("mul_calls", 0), "entry_points_covered": covered, "n_entry_points": len(covered),
           "faults": summ["faults"], "below_documented_minimum_length": ([{"calls": o["calls"], "accepted_and_checked": o["accepted"]} for o in out if o["e"] == "below_min"] or [{}])[0], "tlc_generator": {"module": "spec/gen/GenEC.tla", "wall_s": round(r["wall"], 1)},
           "samples": [{k2: (rec[k2] if k2 not in ("src", "coef") else str(rec[k2])[:80] + "...") for k2 in rec} for rec in recs[:2]]}
    cleanup(wd)
    return v.finish("exploration", cov,
                    ["TLC evaluates EC.tla/GF256.tla correctly (the field definition is cross-checked by C12)",
                     "from their documented minimum length on (sse/avx 16, avx2 32, avx512 64, gfni any) the raw kernels must produce the result; below it they may refuse (non-zero return, destination untouched), but whatever they accept is compared too",
                     "the host executes every ISA variant natively (AVX-512+GFNI present)"])
