"""C02 — decompression reproduces every valid stream, whoever produced it (grammar-directed foreign streams; the spec is the reference decoder)."""
import os, random, zlib
from verif import *
import igz, defgen
from props import inflfam

def gen(tier, rng):
    scns = []
    streams = []
    reps = 2 if tier == "quick" else 12
    for rep in range(reps):
        for plan in defgen.PLANS:
            if tier == "quick" and plan in (["bigdyn"],) and rep: continue
            raw = defgen.make_stream(rng, plan)
            streams.append((plan, raw))
    for rep in range(3):
        streams.append((["aligned-end"], defgen.aligned_fixed_stream(rng, k8=rep * 2 + 1)))
        streams.append((["maxlen"], defgen.maxlen_stream(rng)))
    # zlib-made streams as a second foreign encoder
    for i, (cls, n) in enumerate([("text", 3000), ("runs", 5000), ("random", 400), ("records", 4000)] + ([("text", 40000), ("periodic", 90000)] if tier == "thorough" else [])):
        d = bytes(igz.corpus(rng, cls, n))
        c = zlib.compressobj([1, 6, 9][i % 3], zlib.DEFLATED, -15, 9, [0, zlib.Z_FIXED, zlib.Z_HUFFMAN_ONLY, zlib.Z_RLE][i % 4])
        streams.append((["zlib-%s" % cls], c.compress(d) + c.flush()))
    # payloads whose Adler-32 halves sit on their boundary values (A or B equal to 0 or 65520), in the zlib modes (with header, trailer only,
    # trailer only + verify): the decoder keeps A-1 internally and converts at the end
    from props import c11
    edge = []
    for name, d in c11.adler_edge_inputs(rng):
        if len(d) > 20000: continue
        d = bytes(d); c = zlib.compressobj(6, zlib.DEFLATED, -15); edge.append((name, c.compress(d) + c.flush(), d))
    for i, (name, raw, plain) in enumerate(edge):
        for mode in (3, 5, 4):
            st = inflfam.wrap_stream(mode, raw, plain)
            for api, calls, ta, to in (("inflate_stateless", [[len(st), len(plain) + 100, 0, 0]], 1 << 20, 1 << 20), ("inflate", [], 7, 64), ("inflate", [], 1 << 20, 1 << 16)):
                scns.append(igz.scenario(len(scns), api, list(st), wrap=mode, calls=calls, tail_ai=ta, tail_ao=to, cap=100000, mem=i % 3, meta={"plan": "adler-edge:" + name, "cpu": inflfam.KERNEL_CPUS[i % 3]}))
    k = 0
    for plan, raw in streams:
        try: plain = inflfam.py_inflate(raw)          # only needed to PRODUCE the wrapper trailer; the spec re-decides everything
        except Exception: plain = b""
        modes = [0, 1, 3, 5, 6, 2, 4]
        for mode in ([modes[(k + i) % 7] for i in (0, 2, 3, 5)] if tier == "thorough" else [modes[k % 7], modes[(k + 3) % 7]]):      # (every mode is visited as k advances)
            st = inflfam.wrap_stream(mode, raw, plain)
            for j, (api, calls, ta, to) in enumerate(inflfam.schedules(rng, len(st), tier, light=(len(st) > 6000 or len(plain) > 6000))):
                for cpu in (inflfam.KERNEL_CPUS if j < (4 if tier == "thorough" else 2) else [inflfam.KERNEL_CPUS[(k + j) % 3]]):
                    scns.append(igz.scenario(len(scns), api, list(st), wrap=mode, calls=calls, tail_ai=ta, tail_ao=to, cap=400000, mem=(k + j) % 3, prefill=j % 3,
                                             meta={"plan": "+".join(plan), "cpu": cpu}))
            k += 1
    # the decoder told the window size (hist_bits 9..14; 15 and 0 mean the full window): a stream whose distances fit must decode unchanged
    # (the spec knows each stream's largest distance; beyond the declared window a refusal is excused, a wrong success is not)
    k2 = 0
    for plan, raw in streams:
        if len(raw) > 9000: continue
        try: plain = inflfam.py_inflate(raw)
        except Exception: plain = b""
        for hb in ([9, 12, 15] if tier == "quick" else [9, 10, 11, 12, 13, 14, 15]):
            mode = [0, 1, 3][k2 % 3]; st = inflfam.wrap_stream(mode, raw, plain); k2 += 1
            for api, calls, ta, to in [("inflate_stateless", [[len(st), 1 << 20, 0, 0]], 1 << 20, 1 << 20), ("inflate", [], [1 << 20, 7, 64][k2 % 3], [1 << 20, 300, 9][k2 % 3])]:
                scns.append(igz.scenario(len(scns), api, list(st), wrap=mode, hist_bits=hb, calls=calls, tail_ai=ta, tail_ao=to, cap=400000, mem=k2 % 3,
                                         meta={"plan": "+".join(plan) + ":hist_bits", "cpu": inflfam.KERNEL_CPUS[k2 % 3]}))
    # large streams of short-code blocks (multi-symbol lookup entries) around the decoder's 64 KiB staging boundary: (a) the first call's input
    # ends at every byte near the place where the output reaches 65536 (input runs out inside a symbol exactly when the staging buffer fills),
    # (b) whole input with the first output buffer ending at, just before and just after a block end beyond 64 KiB
    for rep in range(1 if tier == "quick" else 3):
        st, ends = defgen.packed_stream(rng, total=70000 if tier == "quick" else 100000)
        st = bytes(st); n = len(st)
        d = zlib.decompressobj(-15); outlen = 0; off = None
        for i in range(n):
            outlen += len(d.decompress(st[i:i + 1]))
            if outlen >= 65536: off = i; break
        j = 0
        def big(calls, fam):
            nonlocal j
            scns.append(igz.scenario(len(scns), "inflate", list(st), wrap=0, calls=calls, tail_ai=n, tail_ao=1 << 17, cap=4000, mem=j % 3, prefill=j % 3,
                                     meta={"plan": "packed-big:" + fam, "cpu": inflfam.KERNEL_CPUS[j % 3], "salt": j % 7})); j += 1
        scns.append(igz.scenario(len(scns), "inflate_stateless", list(st), wrap=0, calls=[[n, 1 << 18, 0, 0]], meta={"plan": "packed-big:one-shot", "cpu": "host", "salt": 0}))
        if off is not None:
            for cut in range(max(1, off - 40), min(n, off + 6)):
                big([[cut, 1 << 17, 0, 0], [n - cut, 1 << 17, 0, 0]], "input-cut-at-staging-boundary")
        for e in [e for e in ends if e > 65536 + 300][: (14 if tier == "quick" else 60)]:
            for x in (e - 2, e - 1, e, e + 1):
                big([[n, x, 0, 0], [0, 1 << 17, 0, 0]], "output-ends-at-block-end")
        # (c) the pinned 'literal + far match' pairs beyond 64 KiB: the output buffer ends right at the literal and the input ends inside the match
        for pin in (66999, 68001):
            d2 = zlib.decompressobj(-15); o2 = 0; off2 = None
            for i in range(n):
                o2 += len(d2.decompress(st[i:i + 1]))
                if o2 > pin: off2 = i; break
            if off2 is None: continue
            for cut in range(off2 - 6, off2 + 3):
                for x in (pin - 1, pin, pin + 1):
                    big([[cut, x, 0, 0], [n - cut, 1 << 17, 0, 0], [0, 1 << 17, 0, 0]], "output-and-input-end-inside-literal+match")
    return scns

def run(tier, replay=None):
    v = Verdict("C02", tier)
    rng = random.Random(seed() * 16807 % (1 << 31) + 2)
    wd = workdir("c02")
    scns = [json.load(open(replay))["replay"]["scenario"]] if replay else gen(tier, rng)
    if not replay:
        # foreign streams whose dynamic header is the library's OWN default header with one pair of neighbouring code lengths exchanged (the
        # decoder has a shortcut for "the default header"): the header is taken from a level-0 stream the library makes, the variants and
        # the data that uses the exchanged symbols are produced by lib/defgen.py, the TLA+ decoder decides what they decode to
        pr = [igz.scenario(0, "deflate_stateless", igz.corpus(rng, "text", 3000), level=0, wrap=0, calls=[[3000, 8000, 0, 1]], meta={"family": "probe"})]
        precs, psumm, pby = igz.merge(pr, igz.run_harness(pr, wd, "c02probe"))
        own = bytes(b for c in pby[0]["calls"] for b in c["out"])
        k3 = 0
        for name, st in defgen.near_header_streams(rng, own):
            plain = inflfam.py_inflate(st) if True else b""
            for mode in (0, 1, 3):
                wst = inflfam.wrap_stream(mode, st, plain)
                for api, calls_, ta, to in (("inflate_stateless", [[len(wst), 1 << 17, 0, 0]], len(wst), 1 << 17), ("inflate", [], len(wst), 4096), ("inflate", [], 97, 1 << 16)):
                    for cpu in inflfam.KERNEL_CPUS:
                        scns.append(igz.scenario(len(scns), api, list(wst), wrap=mode, calls=calls_, tail_ai=ta, tail_ao=to, cap=100000, mem=k3 % 3, meta={"plan": "near-default-header:" + name, "cpu": cpu})); k3 += 1
    res, by, calls, tw = inflfam.run_and_judge(v, scns, wd, "c02")
    # the documented build-time window configurations: streams produced by a build must decode in that build (and be valid streams at all)
    variants = {}
    if not replay:
        for defs in ("IGZIP_HIST_SIZE=8192", "LONGER_HUFFTABLE"):
            hbv = build_harness("h_igzip", ["h_igzip.c"], extra_defs=defs)
            dsc = []
            for i, (cls, n) in enumerate([("text", 4000), ("records", 20000), ("random", 600), ("lowent", 3000)]):
                inp = igz.corpus(rng, cls, n)
                for level in range(4):
                    for wrap in (0, 1, 3):
                        if (i + level + wrap) % 2 and tier == "quick": continue
                        dsc.append(igz.scenario(len(dsc), ["deflate_stateless", "deflate"][(level + wrap) % 2], inp, level=level, wrap=wrap, lbuf=3,
                                                calls=[[n, 2 * n + 600, 0, 1]] if (level + wrap) % 2 == 0 else [[1000, 1 << 17, [0, 1, 2][i % 3], 1]] * (n // 1000 + 1), tail_ai=n, tail_ao=1 << 17, meta={"family": "build:" + defs, "cls": cls}))
            drecs, dsumm, dby = igz.merge(dsc, igz.run_harness(dsc, wd, "v-defl-" + defs[:6], binary=hbv))
            dres, _ = igz.judge("trace/TraceDeflate", drecs, wd, "c02vd", shards=8)
            igz.report(v, dsc, dres, dby, prefix="build %s: deflate:" % defs)
            isc = []
            for s_ in dsc:
                o = [b for c in dby[s_["scn"]]["calls"] for b in c["out"]]
                if dby[s_["scn"]]["end"].get("state") != "END" and s_["api"] == 0: continue
                if not o: continue
                for api, calls, ta, to in (("inflate_stateless", [[len(o), 1 << 17, 0, 0]], len(o), 1 << 17), ("inflate", [], len(o), 1 << 17), ("inflate", [], 61, 257)):
                    isc.append(igz.scenario(len(isc), api, o, wrap=s_["wrap"], calls=calls, tail_ai=ta, tail_ao=to, cap=20000, mem=len(isc) % 3, meta={"family": "build:" + defs, "plan": "own-stream-level%d" % s_["level"]}))
            irecs, isumm, iby = igz.merge(isc, igz.run_harness(isc, wd, "v-infl-" + defs[:6], binary=hbv))
            ires, _ = igz.judge("trace/TraceInflate", igz.group_inflate(irecs), wd, "c02vi", shards=8)
            igz.report(v, isc, ires, iby, prefix="build %s: inflate:" % defs)
            variants[defs] = {"deflate_scenarios": len(dsc), "inflate_runs": len(isc)}
    notvalid = [s for s in scns if res[s["scn"]]["ref"] != "Valid"]
    if notvalid and not replay:
        log("note: %d generated streams are not Valid per the spec (generator defect, not a finding): e.g. %s" % (len(notvalid), notvalid[0]["meta"]))
    plans = {}
    for s in scns:
        r = res[s["scn"]]
        if r["ref"] == "Valid" and ("dynamic" in r["types"]) and (r["maxdist"] >= 16384 or "15" in s["meta"]["plan"] or r["nout"] > 4096):
            plans[(s["meta"]["plan"], s["wrap"])] = 1
    cov = {"build_variants": variants, "evaluations": len(scns), "distinct_nontrivial": len(plans), "calls": calls, "state_machine_conformance": igz.inflate_conformance(res), "streams": len(set(bytes(s["inp"]) for s in scns)),
           "spec_says_valid": len(scns) - len(notvalid), "kernels": inflfam.KERNEL_CPUS, "tlc_wall_s": round(tw, 1),
           "rule": "streams from the deflate grammar (lib/defgen.py: stored/fixed/dynamic blocks in any order incl. empty ones, complete prefix codes up to 15 bits, single-code distance alphabets, every length/distance symbol edge, overlapping copies, distance 32768, "
                   "compressed sizes on both sides of the 2K/4K multi-symbol thresholds) and zlib-made streams (Z_FIXED/Z_HUFFMAN_ONLY/Z_RLE/default), wrapped for all 7 inflate modes; each replayed one-shot and streaming (1-byte in, 1-byte out, mixed) under the three decode kernels "
                   "(base/_01/_04 selected through the real resolver with simulated CPUID); TLC (TraceInflate.tla) requires delivered bytes = the spec's decode, FINISH, reported input position = true end, state checksum = spec checksum; "
                   "distinct_nontrivial = distinct (block plan, mode) with a dynamic block and (distance >= 16K or 15-bit codes or output > 4 KiB)",
           "samples": [igz.describe(scns[0]), igz.describe(scns[len(scns) // 2])]}
    cleanup(wd)
    return v.finish("exploration", cov, ["the TLA+ decoder is the reference (cross-checked against zlib on the same generator)", "generator and zlib only produce bytes"])
