"""Shared machinery for the decompressor properties C02 (valid foreign streams), C06 (arbitrary bytes), C11 (checksums).
Streams are PRODUCED by lib/defgen.py, python zlib/gzip and ISA-L's own compressor; the specification (TLC:
TraceInflate.tla -> Wrappers!Unwrap) decides for every stream and mutant what it is and what it decodes to."""
import os, random, zlib, struct, io, gzip
from verif import *
import igz, defgen

KERNEL_CPUS = ["base", "sse", "avx2"]      # decode_huffman_code_block_stateless_base / _01 / _04 through the real resolver

def wrap_stream(mode, raw, plain):
    """container bytes around a raw deflate body for inflate mode `mode` (producer only)"""
    crc = zlib.crc32(bytes(plain)) & 0xffffffff; n = len(plain) & 0xffffffff; ad = zlib.adler32(bytes(plain)) & 0xffffffff
    if mode == 1: return bytes([31, 139, 8, 0, 1, 2, 3, 4, 0, 3]) + raw + struct.pack("<II", crc, n)
    if mode == 6: return raw + struct.pack("<II", crc, n)
    if mode == 3: return bytes([0x78, 0x9c]) + raw + struct.pack(">I", ad)
    if mode == 5: return raw + struct.pack(">I", ad)
    return raw

def py_inflate(raw):
    d = zlib.decompressobj(-15)
    o = d.decompress(raw)
    return o

def schedules(rng, n, tier, light=False):
    """(api, calls, tail_ai, tail_ao) variants for a stream of n bytes"""
    out = [("inflate_stateless", [[n, 1 << 22, 0, 0]], 1 << 20, 1 << 22), ("inflate", [], 1 << 20, 1 << 22)]
    if light: return out + [("inflate", [], 61, 257)]
    out += [("inflate", [], 1, 1 << 16), ("inflate", [], 1 << 16, 1), ("inflate", [], 3, 8), ("inflate", [], 64, 257)]
    if tier == "thorough": out += [("inflate", [], 2, 2), ("inflate", [], 9, 1000), ("inflate", [[rng.choice([1, 2, 5, 33, 200]), rng.choice([1, 3, 64, 500]), 0, 0] for _ in range(40)], 7, 31)]
    return out

def run_and_judge(v, scns, wd, tag, shards=14, per_cpu=True):
    """run every scenario under its cpu level (meta.cpu), judge with TraceInflate grouped by stream"""
    allrecs, by, calls = [], {}, 0
    for cpu in sorted(set(s["meta"].get("cpu", "host") for s in scns)):
        sub = [s for s in scns if s["meta"].get("cpu", "host") == cpu]
        tf = igz.run_harness(sub, wd, "%s-%s" % (tag, cpu), cpu=None if cpu == "host" else cpu)
        recs, summ, b = igz.merge(sub, tf)
        allrecs += recs; by.update(b); calls += summ.get("calls", 0)
    res, tw = igz.judge("trace/TraceInflate", igz.group_inflate(allrecs), wd, tag, shards=shards,
                        weight=lambda g: 4 * len(g["inp"]) + 30 * len(g["calls"]) + 300)
    for cpu in sorted(set(s["meta"].get("cpu", "host") for s in scns)):
        sub = [s for s in scns if s["meta"].get("cpu", "host") == cpu]
        igz.report(v, sub, {s["scn"]: res[s["scn"]] for s in sub}, by, cpu=cpu)
    return res, by, calls, tw
