"""C19 — gzip/zlib headers written per RFC, parsed back losslessly, resumably."""
import os, random, gzip, io, zlib
from verif import *

def gz_bytes(f):
    """producer only (reader inputs): RFC 1952 header for the given fields; TLC re-parses the bytes with its own parser"""
    flg = (1 if f["text"] else 0) | (2 if f["hcrc"] else 0) | (4 if f["has_extra"] else 0) | (8 if f["has_name"] else 0) | (16 if f["has_comment"] else 0)
    t = f["time"][0] | (f["time"][1] << 16)
    h = bytes([31, 139, 8, flg]) + t.to_bytes(4, "little") + bytes([f["xflags"], f["os"]])
    if f["has_extra"]: h += len(f["extra"]).to_bytes(2, "little") + bytes(f["extra"])
    if f["has_name"]: h += bytes(f["name"]) + b"\0"
    if f["has_comment"]: h += bytes(f["comment"]) + b"\0"
    if f["hcrc"]: h += (zlib.crc32(h) & 0xffff).to_bytes(2, "little")
    return h

def fields(rng, mask, big=False):
    nz = lambda n: [rng.randrange(1, 256) for _ in range(n)]
    return {"text": rng.randrange(2), "time": [rng.randrange(65536), rng.randrange(65536)] if mask & 32 else [0x0201, 0x0403], "xflags": rng.choice([0, 2, 4, 255]), "os": rng.choice([0, 3, 255, 11]),
            "has_extra": 1 if mask & 1 else 0, "extra": [rng.randrange(256) for _ in range(rng.choice([0, 1, 5, 300]) if not big else 65535)] if mask & 1 else [],
            "has_name": 1 if mask & 2 else 0, "name": nz(rng.choice([0, 1, 8, 40]) if not big else 3000) if mask & 2 else [],
            "has_comment": 1 if mask & 4 else 0, "comment": nz(rng.choice([0, 1, 17, 200])) if mask & 4 else [], "hcrc": 1 if mask & 8 else 0}

def run(tier, replay=None):
    v = Verdict("C19", tier)
    rng = random.Random(seed() * 22695477 % (1 << 31) + 19)
    wd = workdir("c19")
    ins, toks = [], []
    nid = 0
    # ---- writers: every subset of optional fields x output sizes around the required size
    for mask in range(16):
        for rep in range(1 if tier == "quick" else 4):
            f = fields(rng, mask | (32 if rep else 0)); f["id"] = nid; f["t"] = "wgzip"; nid += 1
            need = 10 + (2 + len(f["extra"]) if f["has_extra"] else 0) + (len(f["name"]) + 1 if f["has_name"] else 0) + (len(f["comment"]) + 1 if f["has_comment"] else 0) + (2 if f["hcrc"] else 0)
            aos = sorted(set([0, 1, 9, 10, max(0, need - 1), need, need + 1, need + 100]))
            ins.append(f)
            toks += [1, f["id"], f["text"], f["time"][0], f["time"][1], f["xflags"], f["os"], f["has_extra"], len(f["extra"])] + f["extra"] + [f["has_name"], len(f["name"])] + f["name"] + \
                    [f["has_comment"], len(f["comment"])] + f["comment"] + [f["hcrc"], len(aos)] + aos
    f = fields(rng, 15, big=True); f["id"] = nid; f["t"] = "wgzip"; nid += 1; ins.append(f)     # extra field of 65535 bytes
    need = 10 + 2 + 65535 + len(f["name"]) + 1 + len(f["comment"]) + 1 + 2
    aos = [need - 1, need, need + 1]
    toks += [1, f["id"], f["text"], f["time"][0], f["time"][1], f["xflags"], f["os"], 1, 65535] + f["extra"] + [1, len(f["name"])] + f["name"] + [1, len(f["comment"])] + f["comment"] + [1, 3] + aos
    for info in range(8):
        for level in range(4):
            for df in (0, 1):
                if tier == "quick" and (info + level + df) % 2 and info not in (0, 7): continue
                z = {"id": nid, "t": "wzlib", "info": info, "level": level, "dict_flag": df, "dict_id": [0x0304, 0x0102] if (info + level) % 2 else [rng.randrange(65536), rng.randrange(65536)]}
                nid += 1; ins.append(z)
                toks += [2, z["id"], info, level, df, z["dict_id"][0], z["dict_id"][1], 5, 0, 1, 2, 5, 6] + ([] if True else [])
    # ---- readers: headers with every subset of optional fields, every split point / chunking, undersized buffers with and without growth
    def reader(kind, hb, chunks, nb, cb, eb, grow, complete):
        nonlocal nid
        r = {"id": nid, "t": "rin", "kind": kind, "bytes": list(hb), "expect_complete": 1 if complete else 0}; nid += 1; ins.append(r)
        toks.extend([3, r["id"], kind, len(hb)] + list(hb) + [len(chunks)] + chunks + [nb, cb, eb, grow])
    body = bytes([0x4b, 0x4c, 0x04, 0x00, 1, 2, 3, 4, 5, 6, 7, 8])
    for mask in range(16):
        for rep in range(1 if tier == "quick" else 3):
            f = fields(rng, mask | 32)
            f["extra"] = f["extra"][:40]; f["comment"] = f["comment"][:30]
            hb = gz_bytes(f) + body
            hl = len(hb) - len(body)
            for cut in range(1, hl + 1):                       # every single split point inside the header
                reader(0, hb, [cut], 64, 64, 64, 0, True)
            reader(0, hb, [1] * len(hb), 64, 64, 64, 0, True)  # one byte at a time
            reader(0, hb, [2, 3, 1, 7, 1, 1, 5], 64, 64, 64, 0, True)
            reader(0, hb, [len(hb)], 64, 64, 64, 0, True)
            # no user buffers at all (NULL): the fields are skipped; whole, every split, byte by byte
            reader(0, hb, [len(hb)], -1, -1, -1, 0, True)
            reader(0, hb, [1] * len(hb), -1, -1, -1, 0, True)
            for cut in range(1, hl + 1): reader(0, hb, [cut], -1, [-1, 64][cut % 2], -1, 0, True)
            # undersized buffers: one too small / exact, with growth (resume) and without
            nl, cl, el = len(f["name"]) + 1, len(f["comment"]) + 1, len(f["extra"])
            for nb, cb, eb in ((max(nl - 1, 0), 64, 64), (64, max(cl - 1, 0), 64), (64, 64, max(el - 1, 0)), (nl, cl, el), (1, 1, 1), (0, 0, 0)):
                reader(0, hb, [len(hb)], nb, cb, eb, 7, True)
                reader(0, hb, [3, 4, 1, 2, 9], nb, cb, eb, 1, True)
                reader(0, hb, [len(hb)], nb, cb, eb, 0, False)
    for mask in (2, 4, 6, 14, 15):          # empty FNAME / FCOMMENT (just the terminating NUL)
        f = fields(rng, mask | 32); f["name"] = []; f["comment"] = []; f["extra"] = f["extra"][:5]
        hb = gz_bytes(f) + body; hl = len(hb) - len(body)
        for nbuf in (64, -1, 1):
            eb = 64 if nbuf == 1 else nbuf          # (1-byte buffers are exactly enough for the empty strings, not for the extra field)
            reader(0, hb, [len(hb)], nbuf, nbuf, eb, 0, True)
            for cut in range(1, hl + 1): reader(0, hb, [cut], nbuf, nbuf, eb, 0, True)
    # independent producer (python gzip module)
    for name in ("", "a", "some-file-name.txt"):
        b = io.BytesIO()
        with gzip.GzipFile(filename=name, mode="wb", fileobj=b, mtime=0x01020304) as g: g.write(b"hello world")
        hb = b.getvalue()
        for cut in range(1, min(len(hb), 24)): reader(0, hb, [cut], 64, 64, 64, 0, True)
    for info in (0, 7):
        for df in (0, 1):
            hb = bytes([0x08 | info << 4, 0]); fl = (0x20 if df else 0) | 0x80; fl += (31 - ((hb[0] * 256 + fl) % 31)) % 31
            hb = bytes([hb[0], fl]) + (bytes([1, 2, 3, 4]) if df else b"") + body
            for cut in range(1, 8): reader(1, hb, [cut], 0, 0, 0, 0, True)
            reader(1, hb, [1] * len(hb), 0, 0, 0, 0, True)
    # every value of each fixed byte of an otherwise well-formed header in turn: magic bytes, compression method, flags (gzip); CMF, FLG (zlib)
    good = gz_bytes(fields(rng, 2 | 32)) + body
    for pos in (0, 1, 2, 3):
        for val in range(256):
            if tier == "quick" and pos == 3 and val % 4 and val < 224: continue
            hb = bytearray(good); hb[pos] = val
            reader(0, bytes(hb), [len(hb)] if val % 2 else [3, 1, len(hb)], 64, 64, 64, 0, False)
    for cmf in range(256):
        fl = 0x80; fl += (31 - ((cmf * 256 + fl) % 31)) % 31
        reader(1, bytes([cmf, fl]) + body, [2 + len(body)] if cmf % 2 else [1, 1 + len(body)], 0, 0, 0, 0, False)
    # arbitrary bytes as headers
    for _ in range(200 if tier == "quick" else 3000):
        hb = bytes(rng.randrange(256) for _ in range(rng.randrange(0, 40)))
        if rng.random() < 0.6: hb = bytes([31, 139, 8]) + hb
        reader(rng.randrange(2) if hb[:2] != b"\x1f\x8b" else 0, hb, [rng.randrange(1, 9) for _ in range(12)], 4, 4, 4, rng.choice([0, 3]), False)
    inf, sf, tr, of = os.path.join(wd, "in.ndjson"), os.path.join(wd, "scn.txt"), os.path.join(wd, "trace.ndjson"), os.path.join(wd, "out.ndjson")
    write_ndjson(inf, ins)
    open(sf, "w").write(" ".join(map(str, toks)))
    h = build_harness("h_hdr", ["h_hdr.c"])
    sh([h, sf, tr], timeout=900)
    r = tlc("trace/TraceHeader", wd=wd, env={"VERIF_IN": inf, "VERIF_TRACE": tr, "VERIF_OUT": of}, timeout=1800, xmx="6g")
    res = read_ndjson(of)
    recs = read_ndjson(tr)
    byid = {x["id"]: x for x in ins}
    counts = {"wgzip": 0, "wzlib": 0, "read": 0}
    for rec, o in zip(recs, res):
        counts[o["t"]] += 1
        for why in o["viol"]:
            s = byid[o["id"]]
            shape = ""
            if o["t"] == "read" and why.startswith("H4") and s["kind"] == 0 and len(rec["steps"]) > 1:
                b = s["bytes"]; flg = b[3] if len(b) > 3 else 0
                shape = ":split-header:FHCRC=%d:optional-fields=%d" % ((flg >> 1) & 1, bin(flg & 0x1c).count("1"))
            v.violation("%s:%s%s" % (o["t"], why, shape), "%s %s: %s" % (o["t"], why, json.dumps({k: (x if not isinstance(x, list) or len(x) < 40 else x[:40]) for k, x in rec.items()})[:400]),
                        {"input": s, "recorded": rec})
    mc = {k: tlc_cached("mc/MCHeaderIO", cfg="MCHeaderIO_%s.cfg" % k, wd=wd, workers=2, timeout=300) for k in ("gzip", "zlib")}
    drift = sum(o.get("drift", 0) for o in res)
    keys = set(tuple(k) for o in res for k in o.get("keys", []))
    if drift: log("note: %d reader calls are not steps of spec/HeaderIOOps.tla (model drift, informational)" % drift)
    # the same header readers reached through isal_inflate (which parses the wrapper with its own buffers and keeps the reader's state inside
    # the decompressor): gzip members with every combination of optional fields (with and without a header CRC) and zlib streams that
    # announce a dictionary, split at every header byte, followed by a short body; judged like any other inflate trace (TraceInflate)
    nvia = 0
    if not replay:
        import zlib, struct
        from props import inflfam
        import igz
        body = bytes(igz.corpus(rng, "text", 300)); c6 = zlib.compressobj(6, zlib.DEFLATED, -15); rawb = c6.compress(body) + c6.flush()
        isc = []
        for mask in range(16):
            for hcrc in (0, 32):
                f = fields(rng, mask | hcrc | 64); f["extra"] = f["extra"][:14]; f["comment"] = f["comment"][:9]; f["name"] = f["name"][:7]
                st = gz_bytes(f) + rawb + struct.pack("<II", zlib.crc32(body) & 0xffffffff, len(body))
                hl = len(st) - len(rawb) - 8
                for cut in range(1, hl + 2):
                    if tier == "quick" and (cut + mask) % 2 and cut > 10: continue
                    isc.append(igz.scenario(len(isc), "inflate", list(st), wrap=1, calls=[[cut, 1 << 16, 0, 0], [len(st) - cut, 1 << 16, 0, 0]], mem=cut % 3, meta={"family": "gzip-header-through-isal_inflate", "cpu": "host", "salt": cut % 6}))
        dct = igz.corpus(rng, "text", 500); data = bytes(dct[100:300] + igz.corpus(rng, "text", 100))
        cz = zlib.compressobj(6, zlib.DEFLATED, 15, 9, 0, bytes(dct)); zst = cz.compress(data) + cz.flush()
        for cut in range(1, 9):
            isc.append(igz.scenario(len(isc), "inflate", list(zst), wrap=3, dictmode=2, dct=dct, calls=[[cut, 1 << 16, 0, 0], [len(zst) - cut, 1 << 16, 0, 0]], mem=cut % 3, meta={"family": "zlib-fdict-header-through-isal_inflate", "cpu": "host", "salt": cut % 6}))
        vv = Verdict("C19", tier)
        inflfam.run_and_judge(vv, isc, wd, "c19i")
        for key, desc, rp in vv.violations: v.violation("via-isal_inflate:" + key, desc, rp)
        nvia = len(isc)
    cov = {"headers_through_isal_inflate": nvia, "states": len(recs), "transitions": sum(len(x.get("steps", [1])) for x in recs), "traces_validated_against_impl": len(recs), "evaluations": len(recs),
           "distinct_nontrivial": counts["read"] + counts["wgzip"], "writer_calls": counts["wgzip"] + counts["wzlib"], "reader_runs": counts["read"],
           "state_machine_conformance": {"model": "spec/HeaderIOOps.tla (machine: spec/HeaderIO.tla, model-checked: %s)" % {k: x["distinct"] for k, x in mc.items()},
                                         "reader_calls_not_in_model": drift, "distinct_(kind,state,input,code,next_state)_observed": len(keys)},
           "rule": "writers: every subset of {FEXTRA,FNAME,FCOMMENT,FHCRC} x field values (text, time with distinct bytes, xflags, os, extra up to 65535 B) x avail_out in {0,1,9,10,need-1,need,need+1,need+100}; zlib info 0-7 x level 0-3 x FDICT with a dictionary id of distinct bytes; "
                   "TLC requires the bytes to be exactly as long as the RFC layout and to PARSE back (Wrappers!ParseGzip/ParseZlib: RFC byte order, FCHECK, CRC16) to the given fields, or the required size with the stream untouched; "
                   "readers: for headers with every subset of optional fields every single split point, 1-byte chunks, mixed chunks, undersized name/comment/extra buffers (one short, exact, 1, 0) with growth (resume after overflow) and without, python-gzip-made headers, zlib headers with/without FDICT, "
                   "and random byte strings; each chunk and each user buffer ends flush against an inaccessible page; TLC requires documented codes, END_INPUT only with all input consumed, and on completion the fields and the end position of the spec's own parse",
           "samples": [{k: x for k, x in ins[3].items()}, recs[len(recs) // 2] if len(json.dumps(recs[len(recs) // 2])) < 3000 else recs[0]]}
    cleanup(wd)
    return v.finish("model_checking", cov, ["Wrappers.tla transcribes RFC 1952 2.3 / RFC 1950 2.2 (DICTID and Adler-32 most significant byte first; gzip fields little endian)",
                                              "reserved gzip FLG bits are treated as lenient"])
