"""C12 — GF(2^8) scalar arithmetic and tables are a correct field (exhaustive, direction V)."""
import os, json
from verif import *

def run(tier, replay=None):
    v = Verdict("C12", tier)
    wd = workdir("c12")
    builds = [("default", "")]
    builds.append(("GF_LARGE_TABLES", "GF_LARGE_TABLES"))       # the property names this build option explicitly
    cov = {"evaluations": 0, "distinct_nontrivial": 0, "exhaustive": True, "builds": [],
           "rule": "every (a,b) in [0,255]^2 through gf_mul, every a through gf_inv, every constant c through "
                   "gf_vect_mul_init / ec_init_tables_base / ec_init_tables (dispatched) / ec_init_tables_gfni; each recorded value "
                   "is compared by TLC (spec/trace/TraceGF.tla) with GF256.tla (shift-and-add product mod 0x11D, nibble expansion, "
                   "GF2P8AFFINEQB semantics for all 256 operands); non-trivial = operand pair with a,b >= 2 or table of c >= 2",
           "samples": []}
    for name, defs in builds:
        h = build_harness("h_gf12", ["h_gf12.c"], extra_defs=defs)
        dump = os.path.join(wd, "gf12-%s.ndjson" % name)
        sh([h, dump], timeout=120)
        out = os.path.join(wd, "res-%s.json" % name)
        r = tlc("trace/TraceGF", wd=wd, env={"VERIF_IN": dump, "VERIF_OUT": out}, timeout=600)
        res = read_ndjson(out)[0]
        n = res["mul_rows"] * 256 + res["inv"] * 256 + res["nib"] * 32 + res["gfni"] * 256 + res.get("vmul", 0) * 512
        cov["evaluations"] += n
        cov["distinct_nontrivial"] += 254 * 254 + 254 + (res["nib"] + res["gfni"]) * 254 // 256
        cov["builds"].append({"build": name, "mul_rows": res["mul_rows"], "inv_tables": res["inv"],
                              "nibble_tables": res["nib"], "gfni_matrices": res["gfni"], "constant_multiply_kernel_runs": res.get("vmul", 0), "field_axioms_ok": res["field_ok"]})
        if not res["field_ok"]:
            raise Infra("GF256.tla field axioms failed: the specification itself is wrong")
        if res["mul_rows"] != 256 or res["inv"] != 1 or res["nib"] + res["gfni"] != 1536:
            raise Infra("C12 dump incomplete: %r" % res)
        for b in res["bad"]:
            v.violation("%s:%s" % (b[0], name), "%s disagrees with GF(2^8)/0x11D at operand %s,%s (build %s)" % (b[0], b[1], b[2], name),
                        {"build": name, "entry": b})
        if res["nbad"] > len(res["bad"]):
            v.violation("many:%s" % name, "%d mismatching entries (build %s)" % (res["nbad"], name), {"build": name})
    rec = read_ndjson(dump)
    cov["samples"] = [{"t": "mul", "a": rec[3]["a"], "row_first8": rec[3]["row"][:8]}, rec[300]]
    cleanup(wd)
    return v.finish("exploration", cov,
                    ["TLC evaluates GF256.tla correctly", "the harness dumps the values the functions returned (h_gf12.c)",
                     "GF2P8AFFINEQB semantics as in the Intel SDM (Affine in GF256.tla)"])
