"""C06 — decompression of arbitrary bytes is safe, terminates and never falsely succeeds."""
import os, random, zlib
from verif import *
import igz, defgen
from props import inflfam

CODE = {"block": -1, "symbol": -2, "lookback": -3, "wrapper": -4, "method": -5, "checksum": -6}

def small_streams(rng, tier):
    """short parents (<= ~96 bytes) for exhaustive truncation / single-bit-flip sweeps"""
    out = []
    for plan in (["fixed"], ["dynamic"], ["stored"], ["empty_stored", "fixed"], ["litonly"], ["edges"], ["dynamic", "stored"]):
        for _ in range(40):
            s = defgen.make_stream(rng, plan)
            if 8 <= len(s) <= (96 if tier == "thorough" else 64):
                out.append(("+".join(plan), s)); break
    return out

def gen(tier, rng, own=()):
    scns = []
    k = 0
    def runs(st, mode, meta, cpus=("host",), sch=None):
        nonlocal k
        for api, calls, ta, to in (sch or [("inflate_stateless", [[len(st), 1 << 16, 0, 0]], 1 << 16, 1 << 16), ("inflate", [], 1 << 16, 1 << 16), ("inflate", [], 1, 3)]):
            for cpu in cpus:
                scns.append(igz.scenario(len(scns), api, list(st), wrap=mode, calls=calls, tail_ai=ta, tail_ao=to, cap=60000, mem=k % 3, prefill=k % 3, meta=dict(meta, cpu=cpu)))
                k += 1
        if len(st) and k % 4 == 0:      # and a model-guided schedule (the harness walks the least-visited room / hand-over choices from the decoder's current state)
            scns.append(igz.scenario(len(scns), "inflate", list(st), wrap=mode, calls=[], tail_ai=len(st), tail_ao=1 << 16, cap=max(400, 8 * len(st)), mem=k % 3, prefill=k % 3,
                                     meta=dict(meta, cpu=cpus[0], adaptive=1 + k)))
            k += 1
    parents = small_streams(rng, tier)
    for name, raw in parents:
        plain = inflfam.py_inflate(raw)
        for mode in ([0, 1, 3] if tier == "quick" else [0, 1, 3, 5, 6]):
            st = inflfam.wrap_stream(mode, raw, plain)
            cpus = [inflfam.KERNEL_CPUS[k % 3]]
            # (a) every truncation
            for cut in range(len(st)):
                if tier == "quick" and mode and cut % 2: continue
                runs(st[:cut], mode, {"family": "truncation", "parent": name, "complete_supply": True}, cpus,
                     sch=[("inflate_stateless", [[cut, 1 << 16, 0, 0]], 1 << 16, 1 << 16), ("inflate", [], 2, 5)])
            # (b) every single-bit flip
            for byte in range(len(st)):
                for bit in range(8):
                    if tier == "quick" and (byte * 8 + bit + mode) % (3 if mode == 0 else 7): continue
                    m = bytearray(st); m[byte] ^= 1 << bit
                    runs(bytes(m), mode, {"family": "bitflip", "parent": name}, cpus,
                         sch=[("inflate_stateless", [[len(st), 1 << 16, 0, 0]], 1 << 16, 1 << 16), ("inflate", [], [1, 3, 1 << 16][(byte + bit) % 3], [1, 7, 1 << 16][(byte * 3 + bit) % 3])])
            # byte substitutions (sample)
            for _ in range(10 if tier == "quick" else 60):
                m = bytearray(st); m[rng.randrange(len(st))] = rng.randrange(256)
                runs(bytes(m), mode, {"family": "byte-substitution", "parent": name}, cpus)
    # (a2) zlib streams whose payload's Adler-32 halves sit on their boundary values (A or B in {0, 65520}): intact, and with every bit of the
    #      trailer flipped (a decoder that converts its internal A-1 form wrongly accepts exactly one of those)
    from props import c11
    for name, d in c11.adler_edge_inputs(rng)[:6]:
        if len(d) > 3000: continue
        d = bytes(d); c = zlib.compressobj(6, zlib.DEFLATED, -15); raw = c.compress(d) + c.flush()
        for mode in (3, 5):
            st = inflfam.wrap_stream(mode, raw, d)
            runs(st, mode, {"family": "adler-boundary-intact", "parent": name}, [inflfam.KERNEL_CPUS[k % 3]])
            for byte in range(len(st) - 4, len(st)):
                for bit in range(8):
                    m = bytearray(st); m[byte] ^= 1 << bit
                    runs(bytes(m), mode, {"family": "adler-boundary-trailer-bitflip", "parent": name}, [inflfam.KERNEL_CPUS[(byte + bit) % 3]],
                         sch=[("inflate_stateless", [[len(st), 1 << 16, 0, 0]], 1 << 16, 1 << 16), ("inflate", [], [3, 1 << 16][bit % 2], [7, 1 << 16][(bit // 2) % 2])])
    # (b2) every output-buffer size, one-shot: a valid stream with too little room must be reported as overflow (or decoded), never as invalid
    tiny = []
    for toks in ([("lit", 97), ("match", 3, 1)], [("lit", 97), ("lit", 98), ("lit", 99), ("lit", 100), ("match", 3, 4)], [("lit", 97), ("match", 3, 1), ("lit", 98), ("match", 4, 2), ("lit", 99), ("lit", 99), ("match", 3, 1)],
                 [("lit", 120), ("lit", 121), ("match", 258, 2), ("lit", 122), ("match", 5, 1)]):
        for depth in (3, 4):     # short codes: decoders with multi-symbol lookup entries pack 'literal(s) + length' into one entry
            bw = defgen.BitWriter(); defgen.dyn_block(bw, rng, toks, False, maxdepth=depth, rle="plain"); defgen.stored_block(bw, [], True); tiny.append(("packed-%d-%d" % (len(toks), depth), bw.done()))
    for name, raw in list(parents) + tiny:
        plain = inflfam.py_inflate(raw)
        for ao in range(0, len(plain) + 2):
            for cpu in (inflfam.KERNEL_CPUS if name.startswith("packed") else [inflfam.KERNEL_CPUS[ao % 3]]):
                scns.append(igz.scenario(len(scns), "inflate_stateless", list(raw), wrap=0, calls=[[len(raw), ao, 0, 0]], tail_ai=len(raw), tail_ao=ao, cap=4, mem=ao % 3, prefill=ao % 3,
                                         meta={"family": "one-shot-every-output-size", "parent": name, "cpu": cpu, "complete_supply": True}))
                if name.startswith("packed"):
                    scns.append(igz.scenario(len(scns), "inflate", list(raw), wrap=0, calls=[[len(raw), ao, 0, 0]], tail_ai=len(raw), tail_ao=1, cap=4000, mem=ao % 3, prefill=ao % 3,
                                             meta={"family": "one-shot-every-output-size", "parent": name, "cpu": cpu, "complete_supply": True}))
    # (c) grammar-level single faults with the documented error class
    for fault, cls in defgen.FAULTS.items():
        for rep in range((2 if tier == "quick" else 8) * (3 if fault == "rep16_first" else 1)):      # (the exact form of rep16_first needs literals 0-2 unused)
            plan = ["dynamic"] if fault in ("oversubscribed_ll", "oversubscribed_cl", "no_eob", "rep16_first", "rep_past_end") or fault.startswith("extra_code") else \
                   ["fixed"] if fault in ("dist_sym_30", "ll_sym_286") else ["stored"] if fault == "len_nlen" else ["fixed", "dynamic"]
            st = defgen.too_far_stream(rng) if fault == "dist_too_far" else defgen.make_stream(rng, plan, fault=fault, fault_block=0 if fault != "btype3" else rng.choice([0, 1]))
            runs(st, 0, {"family": "fault:" + fault, "expect_ret": CODE[cls]}, inflfam.KERNEL_CPUS)
    # a distance reaching before the start of the output, one-shot with EVERY output size (the output may end before, at or inside the offending
    # match) under every kernel: an error or 'output too small' are both acceptable answers, success or bytes the spec did not produce are not
    for nlit, mlen, over in ((3, 3, 1), (1, 10, 4), (5, 40, 20), (2, 258, 100)) + (((7, 17, 2), (30, 100, 1)) if tier == "thorough" else ()):
        st = defgen.too_far_stream(rng, nlit, mlen, over)
        for ao in range(0, nlit + mlen + 3):
            for cpu in inflfam.KERNEL_CPUS:
                scns.append(igz.scenario(len(scns), "inflate_stateless", list(st), wrap=0, calls=[[len(st), ao, 0, 0]], tail_ai=len(st), tail_ao=ao, cap=4, mem=ao % 3, prefill=ao % 3,
                                         meta={"family": "invalid-lookback-every-output-size", "cpu": cpu, "complete_supply": True}))
    # undecodable data under an incomplete code set: a deep code set with its last code dropped, and that unassigned code used, in the
    # second block of a stream whose first block filled the decoder's lookup tables (stale entries); also on a reused decoder state
    for fault in ("use_undefined_dist", "use_undefined_ll"):
        for rep in range(6 if tier == "quick" else 40):
            st = defgen.make_stream(rng, ["dynamic15", "dynamic15"] if rep % 2 else ["dynamic15", "fixed", "dynamic15"], fault=fault, fault_block=1 if rep % 2 else 2)
            runs(st, 0, {"family": "fault:" + fault}, inflfam.KERNEL_CPUS)
    # incomplete distance code sets with many long codes (the RFC leaves incomplete sets to the decoder: it may refuse them, but a decoder that
    # takes them must decode the literals and recognise the end of the final block)
    for dl in defgen.deep_incomplete_dist_sets(rng, 12 if tier == "quick" else 120):
        runs(defgen.incomplete_dist_stream(rng, dl), 0, {"family": "incomplete-deep-distance-set"}, inflfam.KERNEL_CPUS)
    # wrapper faults
    text = bytes(igz.corpus(rng, "text", 200)); raw = zlib.compress(text)[2:-4]
    g = bytearray(inflfam.wrap_stream(1, raw, text))
    for pos, val, code in ((0, 30, -4), (1, 140, -4), (2, 7, -5)):
        m = bytearray(g); m[pos] = val
        runs(bytes(m), 1, {"family": "fault:gzip-hdr", "expect_ret": code})
    z = bytearray(inflfam.wrap_stream(3, raw, text))
    for pos, val, code in ((0, 0x77, -5), (1, 0x9d, -6)):    # a wrong FCHECK is documented as ISAL_INCORRECT_CHECKSUM
        m = bytearray(z); m[pos] = val
        runs(bytes(m), 3, {"family": "fault:zlib-hdr", "expect_ret": code})
    for mode in (1, 3, 5, 6):
        m = bytearray(inflfam.wrap_stream(mode, raw, text)); m[-1] ^= 0x10
        runs(bytes(m), mode, {"family": "fault:trailer", "expect_ret": -6})
    # (e) streams made by ISA-L's own compressor as parents (default-table dynamic header: the decoder has a fast path that recognises it when
    #     more than 118 input bytes are offered at once): every bit of the first 20 bytes and a stride beyond, one-shot, whole-input streaming and small pieces
    for name, raw in own:
        for byte in range(min(len(raw), 20 if tier == "quick" else 64)):
            for bit in range(8):
                m = bytearray(raw); m[byte] ^= 1 << bit
                runs(bytes(m), 0, {"family": "bitflip-own-stream", "parent": name}, [inflfam.KERNEL_CPUS[(byte + bit) % 3]],
                     sch=[("inflate_stateless", [[len(raw), 1 << 16, 0, 0]], 1 << 16, 1 << 16), ("inflate", [], 1 << 16, 1 << 16)] + ([("inflate", [], 5, 300)] if bit % 4 == 0 else []))
        for _ in range(20 if tier == "quick" else 200):
            m = bytearray(raw); i = rng.randrange(20, len(raw)); m[i] ^= 1 << rng.randrange(8)
            runs(bytes(m), 0, {"family": "bitflip-own-stream", "parent": name}, [inflfam.KERNEL_CPUS[i % 3]], sch=[("inflate_stateless", [[len(raw), 1 << 16, 0, 0]], 1 << 16, 1 << 16)])
    # (d) random byte strings
    for _ in range(60 if tier == "quick" else 600):
        runs(bytes(rng.randrange(256) for _ in range(rng.randrange(0, 80))), rng.choice([0, 0, 1, 3, 5, 6]), {"family": "random-bytes"})
    return scns

def run(tier, replay=None):
    v = Verdict("C06", tier)
    rng = random.Random(seed() * 39373 % (1 << 31) + 6)
    wd = workdir("c06")
    own = []
    if not replay:      # parents produced by the library's own compressor (inputs only; the spec judges every mutant)
        ps = [igz.scenario(i, "deflate_stateless", igz.corpus(rng, cls, n), level=lvl, wrap=0, table=tab, calls=[[n, n + 600, 0, 1]], meta={"family": "own-parent"})
              for i, (cls, n, lvl, tab) in enumerate([("text", 420, 0, 0), ("records", 700, 1, 0), ("text", 300, 0, 1), ("lowent", 500, 2, 0)])]
        recs, _, by0 = igz.merge(ps, igz.run_harness(ps, wd, "own"))
        for p_ in ps:
            o = [b for c in by0[p_["scn"]]["calls"] for b in c["out"]]
            if len(o) > 30: own.append(("isal-level%d-table%d" % (p_["level"], p_["table"]), bytes(o)))
    scns = [json.load(open(replay))["replay"]["scenario"]] if replay else gen(tier, rng, own)
    res, by, calls, tw = inflfam.run_and_judge(v, scns, wd, "c06")
    fam, cls = {}, {}
    for s in scns:
        fam[s["meta"]["family"]] = fam.get(s["meta"]["family"], 0) + 1
        r = res[s["scn"]]; key = r["ref"] + (":" + r["class"] if r["class"] else ""); cls[key] = cls.get(key, 0) + 1
    mutants = len(set((s["wrap"], bytes(s["inp"])) for s in scns))
    cov = {"evaluations": len(scns), "distinct_nontrivial": sum(1 for s in scns if res[s["scn"]]["ref"] != "Valid"), "distinct_byte_strings": mutants, "calls": calls, "state_machine_conformance": igz.inflate_conformance(res),
           "families": fam, "spec_classification": cls, "tlc_wall_s": round(tw, 1),
           "rule": "parents = short generated streams (<=64/96 B) in raw/gzip/zlib (+NO_HDR_VER in thorough) form; EVERY truncation and EVERY single-bit flip (stride-sampled in quick for wrapped forms), byte substitutions, grammar-level single faults "
                   "(BTYPE=3, LEN/NLEN, over-subscribed lit/len and code-length sets, missing EOB code, repeat-16 first, repeat past end, distance symbol 30, lit/len 286, distance beyond output, gzip/zlib header and trailer faults) with the documented class, random byte strings; "
                   "each run one-shot and streaming (1..3-byte chunks) under the three decode kernels; TLC classifies every byte string with the spec and requires: no FINISH unless the spec accepts, delivered bytes = prefix of the spec's decode, documented codes only, "
                   "<= avail_out written, progress, documented class for injected faults; distinct_nontrivial = runs whose byte string the spec does not accept",
           "samples": [igz.describe(scns[min(10, len(scns) - 1)]), igz.describe(scns[-1])]}
    cleanup(wd)
    return v.finish("exploration", cov, ["the TLA+ decoder classifies each input; streams RFC 1951 does not clearly forbid (incomplete code sets) are 'lenient': either outcome is accepted",
                                         "error class is asserted only for injected single faults"])
