"""C17 — matches never reach outside the announced window or preset dictionary; dictionary semantics."""
import os, random
from verif import *
import igz

CPUS = ["base", "sse", "avx2", "avx512", "avx512g2"]

def equal_pairs(v, pairs, wd, tag):
    if not pairs: return 0
    a, b = os.path.join(wd, "eq-%s.in" % tag), os.path.join(wd, "eq-%s.out" % tag)
    write_ndjson(a, [{"id": i, "a": p[1], "b": p[2]} for i, p in enumerate(pairs)])
    tlc("trace/TraceEqual", wd=wd, env={"VERIF_IN": a, "VERIF_OUT": b}, timeout=900, xmx="4g")
    for o in read_ndjson(b):
        if not o["equal"]:
            name, _, _, rep = pairs[o["id"]]
            v.violation("equal:%s" % name.split("|")[0], "%s: the two runs differ (first difference at element %d)" % (name, o["first_diff"]), rep)
    return len(pairs)

def gen(tier, rng):
    scns = []
    def add(**kw):
        kw["scn"] = len(scns); scns.append(igz.scenario(**kw)); return kw["scn"]
    k = 0
    # (a) long-range repeats around 2^w and 32768
    for w in range(9, 16):
        for dist in sorted(set([(1 << w) - 1, 1 << w, (1 << w) + 1, (1 << w) - 258, 32767, 32768, 32769, 70000])):
            if tier == "quick" and dist not in ((1 << w) - 1, 1 << w, (1 << w) + 1, 32768) : continue
            n = min(2 * dist + 600, 150000)
            inp = igz.far_repeat(rng, n, dist, low_entropy=(k % 3 != 2))
            for level in range(4):
                if tier == "quick" and (k + level) % 2 and level != 3: continue
                cpu = CPUS[(k + level) % len(CPUS)]
                if level == 3:      # the level-3 match-map generators (base, _04 on AVX2, _06 on AVX-512) mask distances separately
                    cpu = ["avx2", "avx512g2", "base", "avx2", "avx512"][k % 5]
                wrap = [0, 3, 1][(k + level) % 3]
                if (k + level) % 4 == 0:
                    add(api="deflate_stateless", inp=inp, level=level, wrap=wrap, hist_bits=w, lbuf=3, calls=[[n, n + n // 4 + 500, 0, 1]], meta={"family": "window", "cpu": cpu, "w": w, "dist": dist})
                else:
                    add(api="deflate", inp=inp, level=level, wrap=wrap, hist_bits=w, lbuf=[3, 0][k % 2], calls=[[[n, 4096, 20000][k % 3], 1 << 20, [0, 1, 2][(k // 2) % 3], 1]] * (n // 4096 + 2), tail_ai=n,
                        meta={"family": "window", "cpu": cpu, "w": w, "dist": dist})
            k += 1
    # (a2) the whole window's worth of input handed over in small NO_FLUSH pieces, so that everything is only buffered and the first byte is
    #      compressed with k = 2^w - d bytes already buffered: the hash heads are then seeded relative to the buffered amount, and a candidate
    #      "k bytes back" must never reach in front of the first byte of the stream (the data has zero groups that would match the zeroed
    #      bookkeeping fields lying just before the internal buffer)
    for w in range(9, 16):
        for d_ in ((4, 1) if tier == "quick" else (1, 2, 3, 4, 5, 8, 16)):
            kk = (1 << w) - d_
            n = kk + 300
            inp = [1 + rng.randrange(250) for _ in range(n)]
            for off in (40, 41, 200, 1000, kk - 8):
                if 0 <= off < n - 8: inp[off:off + 4 + (off % 3)] = [0] * (4 + off % 3)
            for level in range(4):
                if tier == "quick" and (w + level + d_) % 2: continue
                piece = [64, 100][(w + level) % 2]
                calls = [[piece, 1 << 16, 0, 0]] * (kk // piece) + ([[kk % piece, 1 << 16, 0, 0]] if kk % piece else []) + [[300, 1 << 16, 0, 1]]
                add(api="deflate", inp=inp, level=level, wrap=[0, 3, 1][(w + level) % 3], hist_bits=w, lbuf=[3, 0][w % 2], prefill=0, calls=calls, tail_ai=n,
                    meta={"family": "buffered-window-then-first-byte", "cpu": "host", "w": w, "dist": kk})
    # (b) dictionaries at stream start: set directly vs pre-processed; long dictionaries vs their 32 KiB tail
    pairs = []
    for dl in ([1, 100, 4000, 32768, 32769, 70000] if tier == "quick" else [1, 2, 3, 100, 258, 4000, 32767, 32768, 32769, 40000, 70000]):
        dct = igz.corpus(rng, "text", dl) if dl % 2 == 0 else igz.corpus(rng, "records", dl)
        tail = dct[-min(len(dct), 1500):]
        data = tail[len(tail) // 3:] + igz.corpus(rng, "text", 400) + tail[:len(tail) // 2] + dct[-40:] * 3
        for level in range(4):
            for flush in ((0,) if tier == "quick" else (0, 1, 2)):
                wrap = [0, 1, 3][(k + level) % 3]
                calls = [[[len(data), 300][k % 2], 1 << 16, flush, 1]] * (len(data) // 300 + 2)
                a = add(api="deflate", inp=data, level=level, wrap=wrap, lbuf=3, dictmode=1, dct=dct, calls=calls, meta={"family": "dict-direct", "cpu": "host", "dl": dl})
                b = add(api="deflate", inp=data, level=level, wrap=wrap, lbuf=3, dictmode=2, dct=dct, calls=calls, prefill=(k + level) % 3, meta={"family": "dict-preprocessed", "cpu": "host", "dl": dl})      # (the isal_dict output structure is zeroed / 0xFF-filled / random before the call)
                pairs.append(("preprocessed-vs-direct|level %d dict_len %d" % (level, dl), a, b))
                if dl > 32768:
                    c = add(api="deflate", inp=data, level=level, wrap=wrap, lbuf=3, dictmode=1, dct=dct[-32768:], calls=calls, meta={"family": "dict-tail", "cpu": "host", "dl": dl})
                    pairs.append(("long-dictionary-vs-its-32K-tail|level %d dict_len %d" % (level, dl), a, c))
            k += 1
    # (b2) dictionary together with a small window: only what lies within 2^w of the current position may be referenced (dictionary bytes included)
    for w in (9, 12) if tier == "quick" else (9, 10, 11, 12, 13, 14):
        for dl in (100, 4000, 40000):
            dct = igz.corpus(rng, "text", dl)
            tail = dct[-min(len(dct), 1500):]
            data = tail[len(tail) // 3:] + igz.corpus(rng, "lowent", 700) + tail[:len(tail) // 2] + dct[-40:] * 3 + dct[:200]
            for level in range(4):
                for mode in (1, 2):
                    if tier == "quick" and (level + mode + dl // 100) % 2: continue
                    for late in (0, 512):      # 512: hist_bits is assigned after the dictionary calls (only the level is documented as needed before them)
                        add(api="deflate", inp=data, level=level, wrap=[0, 3][(w + level) % 2], hist_bits=w, lbuf=3, dictmode=mode, dct=dct, mem=level % 3, prefill=late,
                            calls=[[[len(data), 300][(level + mode) % 2], 1 << 16, [0, 1, 2][(w + level) % 3], 1]] * (len(data) // 300 + 2),
                            meta={"family": "dict-small-window" + ("-chosen-after-dictionary" if late else ""), "cpu": CPUS[(w + level + mode) % len(CPUS)], "dl": dl, "w": w})
    # (b3) dictionaries longer than the window: only the last 32 KiB count, and all of it counts - the data begins with the OLDEST bytes of that last
    #      32 KiB (matches at distances up to 32767 right at the start of the stream), so compressor and decompressor must keep exactly the same tail
    for dl in (40000, 32769) if tier == "quick" else (40000, 32769, 33000, 65536, 70001):
        dct = igz.corpus(rng, "random", dl)
        for back in (32768, 32767, 32600):
            src = dl - back
            data = dct[src:src + 300] + igz.corpus(rng, "text", 200) + dct[src + 300:src + 500] + dct[-64:]
            for level in range(4):
                if tier == "quick" and (level + back + dl) % 2: continue
                for mode in (1, 2):
                    add(api="deflate", inp=data, level=level, wrap=[0, 3][(level + mode) % 2], lbuf=3, dictmode=mode, dct=dct, mem=level % 3,
                        calls=[[len(data), 1 << 16, 0, 1]], meta={"family": "dict-longer-than-window-far-edge", "cpu": CPUS[(level + mode) % len(CPUS)], "dl": dl})
    # (b4) the window starts afresh in the middle of a stream (FULL_FLUSH; several one-shot pieces on one context) with the level buffer at an
    #      unaligned address: what the match finders held before the restart must not be reachable (no match before the first byte of a piece)
    for cls, n in [("text", 6000), ("records", 20000)]:
        inp = igz.corpus(rng, cls, n)
        for level in (1, 2, 3):
            for lb in (7, 8, 9, 10):
                if tier == "quick" and (level + lb) % 2 and cls == "records": continue
                add(api="deflate", inp=inp[:n // 2] + inp[:n // 2], level=level, wrap=[0, 1, 3][(level + lb) % 3], lbuf=lb, mem=lb % 3, prefill=lb % 3,
                    calls=[[n // 2, 1 << 17, 2, 0], [n // 2, 1 << 17, 0, 1]], tail_ao=1 << 17, cap=60, meta={"family": "window-restart-unaligned-level-buffer", "cpu": "host"})
    # (c) dictionary calls in a wrong state must be refused; the stream must come out as if they had not been made
    for level in range(4):
        data = igz.corpus(rng, "text", 3000); dct = igz.corpus(rng, "text", 500)
        calls = [[200, 40, 0, 0]] * 30
        a = add(api="deflate", inp=data, level=level, wrap=0, lbuf=3, dictmode=4, dct=dct, calls=calls, tail_ai=100, tail_ao=64, meta={"family": "dict-wrong-state", "cpu": "host"})
        b = add(api="deflate", inp=data, level=level, wrap=0, lbuf=3, dictmode=0, calls=calls, tail_ai=100, tail_ao=64, meta={"family": "dict-wrong-state-ref", "cpu": "host"})
        pairs.append(("refused-dictionary-call-has-no-side-effect|level %d" % level, a, b))
    # (d) dictionary installed after a completed FULL flush with total_in > 0 (documented call point)
    for level in range(4):
        for mode in (6, 7):
            dct = igz.corpus(rng, "records", 2000)
            part1 = igz.corpus(rng, "text", 1500)
            part2 = dct[-600:] + igz.corpus(rng, "text", 300) + dct[-900:-300]
            data = part1 + part2
            for mem in (0, 1):
                add(api="deflate", inp=data, level=level, wrap=[0, 1][mem], lbuf=3, dictmode=mode, dct=dct, prefill=16 * 1, mem=mem,
                    calls=[[1500, 1 << 16, 2, 0], [len(part2), 1 << 16, 0, 1]], meta={"family": "dict-after-full-flush", "cpu": "host", "mode": mode})
    # (d2) the same with low-entropy data on both sides of the flush point and a short dictionary over other symbols: any stale hash entry or
    #      buffer content from before the flush point would match at once, but after the dictionary call only the dictionary may be referenced
    for level in range(4):
        for mode in (6, 7):
            for n1 in ([700, 5001, 40000] if tier == "quick" else [1, 300, 700, 5001, 20000, 32768, 40000, 70000]):
                dct = [rng.choice(b"xyz") for _ in range([100, 9, 3000][(level + n1) % 3])]
                sym = [[0], [97, 98], [0, 0, 0, 7]][(level + mode) % 3]
                part1 = [rng.choice(sym) for _ in range(n1)]
                part2 = [rng.choice(sym) for _ in range(2500)] + dct[-50:] + [rng.choice(sym) for _ in range(300)]
                add(api="deflate", inp=part1 + part2, level=level, wrap=[0, 1][n1 % 2], lbuf=3, dictmode=mode, dct=dct, prefill=16 * 1, mem=n1 % 3,
                    calls=[[n1, 1 << 17, 2, 0], [len(part2), 1 << 17, 0, 1]], meta={"family": "dict-after-full-flush-low-entropy", "cpu": "host", "mode": mode})
    return scns, pairs

def run(tier, replay=None):
    v = Verdict("C17", tier)
    rng = random.Random(seed() * 134775813 % (1 << 31) + 17)
    wd = workdir("c17")
    if replay:
        rp = json.load(open(replay))["replay"]
        if "scenario" not in rp: raise Infra("this replay file describes a pair of runs; re-run the check with the recorded seed %s" % rp.get("seed"))
        scns, pairs = [rp["scenario"]], []
    else:
        scns, pairs = gen(tier, rng)
    # the position arithmetic of the match finders as a model (spec/HashWindow.tla): with the initialisations the code uses now no candidate lies
    # outside the referencable history; the three historical initialisations (defects 10 and 16, seeded change C17d) must violate that
    hw = {}
    if not replay:
        for var in ("fixed", "defect16", "defect10", "seedC17d"):
            r = tlc_cached("mc/MCHashWindow", cfg="MCHashWindow_%s.cfg" % var, wd=wd, workers=4, timeout=900, allow_violation=(var != "fixed"))
            if (var == "fixed") != r["ok"]: raise Infra("HashWindow.tla variant %s: expected %s" % (var, "no violation" if var == "fixed" else "a violation of DerefInsideHistory"))
            hw[var] = {"distinct_states": r["distinct"], "invariant_holds": r["ok"]}
    recs_all, by = [], {}
    calls = 0
    for cpu in sorted(set(s["meta"].get("cpu", "host") for s in scns)):
        sub = [s for s in scns if s["meta"].get("cpu", "host") == cpu]
        tf = igz.run_harness(sub, wd, cpu, cpu=None if cpu == "host" else cpu)
        recs, summ, b = igz.merge(sub, tf)
        recs_all += recs; by.update(b); calls += summ.get("calls", 0)
    res, tw = igz.judge("trace/TraceDeflate", recs_all, wd, "c17", shards=14)
    igz.report(v, scns, res, by)
    # relational claims, judged by TLC (TraceEqual.tla)
    def outbytes(i): return [x for c in by[i]["calls"] for x in c["out"]]
    eq = equal_pairs(v, [(name, outbytes(a), outbytes(b), {"pair": [igz.describe(scns[a]), igz.describe(scns[b])], "seed": seed()}) for name, a, b in pairs], wd, "c17")
    # inflate side primed with the same dictionary (direction G): the produced streams go through isal_inflate
    isc = []
    for s in scns:
        if s["meta"]["family"] in ("dict-direct", "dict-preprocessed", "dict-longer-than-window-far-edge") and by[s["scn"]]["end"].get("why") == "end":
            st = outbytes(s["scn"])
            mode = {0: 0, 1: 1, 3: 3}[s["wrap"]]
            for api, ta, to in (("inflate", 1 << 16, 1 << 16), ("inflate", 7, 11)):
                isc.append(igz.scenario(len(isc), api, st, wrap=mode, dictmode=1, dct=s["dict"], tail_ai=ta, tail_ao=to, cap=100000, meta={"family": "inflate-with-dict", "cpu": "host"}))
    if isc:
        tf = igz.run_harness(isc, wd, "infl")
        irecs, isumm, iby = igz.merge(isc, tf)
        ires, _ = igz.judge("trace/TraceInflate", igz.group_inflate(irecs), wd, "c17i", shards=8)
        igz.report(v, isc, ires, iby, prefix="inflate:")
        calls += isumm.get("calls", 0)
    near = sum(1 for s in scns if s["meta"]["family"] == "window" and res[s["scn"]]["stats"].get("match"))
    dictref = sum(1 for s in scns if res[s["scn"]]["stats"].get("dictref") or (s["meta"]["family"] == "dict-after-full-flush" and res[s["scn"]]["stats"].get("match")))
    refused = sum(1 for s in scns for e in by[s["scn"]]["setdict"] if e.get("wrong_state"))
    cov = {"window_model": {"module": "spec/HashWindow.tla", "variants": hw},
           "evaluations": len(scns) + len(isc) + eq, "distinct_nontrivial": near + dictref, "window_streams_with_matches": near, "streams_referencing_the_dictionary": dictref,
           "equality_pairs": eq, "wrong_state_dictionary_attempts": refused, "inflate_with_dictionary_runs": len(isc), "calls": calls,
           "rule": "inputs repeating at distance 2^w-1, 2^w, 2^w+1, 32767/32768/32769 and 70000 for w=9..15 x levels x flush x simulated CPU level: TLC (TraceDeflate.tla) decodes the stream and requires every match distance <= 2^w and no reference before the start (zlib CINFO+8 >= w); "
                   "dictionaries of length 1..70000 with data sharing content with the dictionary tail, set directly and pre-processed: decode WITH the dictionary (last 32 KiB) must give the input, and no reference may reach before the dictionary; "
                   "pre-processed vs direct and long-dictionary vs 32 KiB tail must give byte-identical streams (TraceEqual.tla); dictionary calls made while a block is open must be refused and leave the stream identical to a run without them; "
                   "a dictionary installed after a completed FULL flush with total_in>0: prefix decodes alone, suffix decodes with the dictionary; the produced dictionary streams are inflated by isal_inflate primed with the same dictionary (TraceInflate.tla)",
           "samples": [igz.describe(scns[0]), igz.describe(dict(scns[-1], dict=scns[-1]["dict"][:16]))]}
    cleanup(wd)
    return v.finish("exploration", cov, ["TLC evaluates the decoder with per-block maximum distance / minimum reference", "dictionary tail = last 32768 bytes (default build)"])
