"""C09 — any k survivors recover the data; inversion exact."""
import os, random
from verif import *

def matrices(rng, tier):
    """Inputs for gf_invert_matrix: random, rank-deficient by construction (XOR of rows, duplicate, zero row/col),
    permutation-needing (zero pivots).  Only XOR/copy is used to build them; TLC decides singularity."""
    ms = []
    sizes = [1, 2, 3, 4, 5, 8, 10, 16, 24, 32] + ([48, 64, 128] if tier == "thorough" else [48])
    for n in sizes:
        R = lambda: [[rng.randrange(256) for _ in range(n)] for _ in range(n)]
        ms.append(R())
        if n >= 2:
            a = R(); a[rng.randrange(n)] = list(a[0]) if n > 1 else a[0]; a[n - 1] = list(a[0]); ms.append(a)            # duplicate rows
            a = R(); a[n - 1] = [x ^ y for x, y in zip(a[0], a[n // 2])] if n // 2 != 0 and n // 2 != n - 1 else [0] * n; ms.append(a)  # row = sum of two others
            a = R(); j = rng.randrange(n)
            for r in a: r[j] = 0
            ms.append(a)                                                                                               # zero column
            p = list(range(n)); rng.shuffle(p); ms.append([[1 if p[i] == j else 0 for j in range(n)] for i in range(n)])  # permutation (zero pivots)
            a = R()
            for i in range(n): a[i][i] = 0
            ms.append(a)                                                                                               # zero diagonal
            a = R(); a[0] = [0] * (n - 1) + [rng.randrange(1, 256)]; ms.append(a)                                        # first row needs the last column
            ms.append([[rng.choice([0, 0, 0, 1]) for _ in range(n)] for _ in range(n)])                                  # sparse 0/1
    return ms

def run(tier, replay=None):
    v = Verdict("C09", tier)
    rng = random.Random(seed() * 32452843 + 9)
    wd = workdir("c09")
    toks = []
    gens = [(3, 2), (6, 4), (10, 5), (14, 10), (25, 4), (25, 21), (40, 37), (255, 3), (256, 200) if False else (255, 200), (20, 10), (128, 100)]
    for m, k in gens:
        toks += [1, m, k, 2, m, k]
    toks += [2, 256, 128]
    mats = matrices(rng, tier)
    for a in mats:
        toks += [3, len(a)] + [x for r in a for x in r]
    # erasure sweep on the real pipeline. (gen, m, k, exhaustive, max_sets)
    sw = []
    for m in range(2, 15 if tier == "quick" else 19):
        for k in range(1, m):
            if tier == "quick" and m > 10 and k not in (1, 2, 3, m // 2, m - 3, m - 2, m - 1): continue
            sw.append((2, m, k, 1, 0))
    # Vandermonde: every documented-safe row
    for m in range(5, 26): sw.append((1, m, 4, 1, 0))                 # k=4, m<=25
    for m in range(6, 11): sw.append((1, m, 5, 1, 0))                 # k=5, m<=10
    for k in range(1, 22): sw.append((1, k + 4, k, 1, 0))             # k<=21, m-k=4
    top = 255 if tier == "thorough" else 100
    for k in (1, 2, 3):
        for m in sorted(set([k + 1, 16, 64, top])): sw.append((1, m, k, 1, 0))       # k<=3, any m
    for d in (1, 2, 3):                                              # m-k<=3: exhaustive while affordable, sampled for large k
        for k in (1, 2, 5, 8, 12, 16, 20):
            sw.append((1, k + d, k, 1, 0))
        for k in (32, 64, 100, 127):
            sw.append((1, k + d, k, 0, 300 if tier == "quick" else 3000))
    for (m, k) in [(32, 16), (64, 48), (128, 100), (200, 128), (256, 128), (256, 2), (255, 127)]:                         # Cauchy, large: sampled
        if k <= 128 and m - k <= 128:
            sw.append((2, m, k, 0, 60 if tier == "quick" else 600))
    for s in sw: toks += [4] + list(s)
    inp = os.path.join(wd, "in.txt"); open(inp, "w").write(" ".join(map(str, toks)))
    h = build_harness("h_c09", ["h_c09.c"])
    dump, res = os.path.join(wd, "c09.ndjson"), os.path.join(wd, "res.json")
    sh([h, inp, dump, str(seed() % 100000 + 1), "997" if tier == "quick" else "4999"], timeout=3300)
    r = tlc("trace/TraceC09", wd=wd, env={"VERIF_IN": dump, "VERIF_OUT": res}, timeout=3000, xmx="8g")
    out = read_ndjson(res)[0]
    recs = read_ndjson(dump)
    for b in out["bad"]:
        rec = recs[b["idx"] - 1]
        short = {k2: (v2 if not isinstance(v2, list) or len(v2) < 70 else v2[:64]) for k2, v2 in rec.items()}
        key = "%s:%s" % (rec["t"] if rec["t"] != "sweep" else "sweep_%s_m%d_k%d" % (rec["gen"], rec["m"], rec["k"]), b["why"])
        v.violation(key, "%s: %s" % (b["why"], json.dumps(short)[:300]), {"record": rec})
    # the same pipeline with every kernel family the dispatcher can select (simulated CPU levels; this host alone would only ever run one):
    # the Cauchy sweeps reach up to 13 parity rows / erasures, i.e. every row-count case of the multi-row encoders
    cpu_sets = 0
    if not replay:
        from props import c16
        hc = c16.build_shimmed("h_c09_cpu", "h_c09.c")
        toks2 = []
        for s4 in [x for x in sw if x[0] == 2 and x[3] == 1 and x[1] <= 14]: toks2 += [4] + list(s4)
        inp2 = os.path.join(wd, "in2.txt"); open(inp2, "w").write(" ".join(map(str, toks2)))
        for cpu in ("base", "sse", "avx", "avx2", "avx512", "avx2gfni"):
            d2, r2 = os.path.join(wd, "c09-%s.ndjson" % cpu), os.path.join(wd, "res-%s.json" % cpu)
            blen = {"base": 96, "sse": 97, "avx": 173, "avx2": 80, "avx512": 200, "avx2gfni": 173}[cpu]        # (block lengths that leave different remainders for the kernels' 16 / 32 / 64 / 96-byte stages)
            sh([hc, inp2, d2, str(seed() % 100000 + 1), "997", str(blen)], timeout=3300, env={"VERIF_CPU": cpu})
            tlc("trace/TraceC09", wd=wd, env={"VERIF_IN": d2, "VERIF_OUT": r2}, timeout=3000, xmx="8g")
            o2, rc2 = read_ndjson(r2)[0], read_ndjson(d2)
            cpu_sets += [x for x in rc2 if x["t"] == "summary"][0]["sets"]
            for b in o2["bad"]:
                rec = rc2[b["idx"] - 1]
                v.violation("cpu %s: sweep_%s_m%d_k%d:%s" % (cpu, rec.get("gen"), rec.get("m", 0), rec.get("k", 0), b["why"]), "under simulated CPU level %s: %s: %s" % (cpu, b["why"], json.dumps(rec)[:300]), {"record": rec, "cpu": cpu})
    # spec-only: minors / survivor sets on the spec itself
    mo = os.path.join(wd, "mc.json")
    mc = tlc("mc/MCErasure", wd=wd, env={"VERIF_OUT": mo, "VERIF_MAXM": 11 if tier == "thorough" else 9}, timeout=3000, xmx="8g")
    mr = read_ndjson(mo)[0]
    if not (mr["cauchy_ok"] and mr["rs_ok"] and mr["inv_ok"]):
        raise Infra("EC.tla: spec-level any-k-recover theorem failed (%r): documented claim or spec wrong" % mr)
    summ = [x for x in recs if x["t"] == "summary"][0]
    sweeps = [x for x in recs if x["t"] == "sweep"]
    cov = {"evaluations": summ["sets"] + out["invs"] + out["gens"], "distinct_nontrivial": summ["sets"],
           "generator_matrices_checked": out["gens"], "inversions_judged_by_tlc": out["invs"], "singular_inputs_among_them": out["singular_inputs"],
           "survivor_sets_rebuilt_on_real_code": summ["sets"], "survivor_sets_rebuilt_under_other_cpu_levels": cpu_sets, "sweeps": len(sweeps), "exhaustive_sweeps": sum(1 for x in sweeps if x["exhaustive"]),
           "spec_only": {"module": "spec/mc/MCErasure.tla", "max_m": mr["maxm"], "survivor_sets_checked_on_spec": mr["survivor_sets"]},
           "rule": "generators: gf_gen_rs_matrix/gf_gen_cauchy1_matrix for %d (m,k) pairs compared by TLC with EC!RsMatrix/Cauchy1; inversion: n x n inputs (random, duplicate-row, row=XOR of two rows, zero column, permutation, zero diagonal, "
                   "sparse 0/1; n up to %d) recorded as (in, ret, out): TLC requires ret=0 <=> det#0 (Gauss-Jordan in GF256.tla) and in*out=I; sweep: for each (generator,m,k) every k-subset of survivors "
                   "(exhaustive where listed, random subsets for large m) goes through the real generator -> gf_invert_matrix -> ec_init_tables -> ec_encode_data and must rebuild every erased block; TLC requires zero failures for Cauchy and for every (m,k) in the documented safe set RsSafe; "
                   "a 1-in-N sample of (decode matrix, inverse) pairs from the sweep is also judged by TLC. distinct_nontrivial = survivor sets" % (len(gens) * 2 + 1, max(len(a) for a in mats)),
           "samples": [sweeps[len(sweeps) // 2], {"t": "inv", "n": 3, "example": [x for x in recs if x["t"] == "inv" and x["n"] == 3][0]}]}
    cleanup(wd)
    return v.finish("exploration", cov, ["TLC evaluates GF256!Invert/MatMul correctly", "erasure sweep uses the real pipeline; the expected value is the original block (the property is its own oracle)",
                                         "documented safe (m,k) table transcribed as EC!RsSafe"])
