"""C11 — wrapped streams carry correct checksums; verification catches corruption."""
import os, random, zlib
from verif import *
import igz, defgen
from props import inflfam

def gen_verifier(tier, rng):
    scns = []
    k = 0
    parents = []
    for cls, n in [("text", 60), ("random", 24), ("runs", 90)] + ([("records", 200), ("lowent", 150)] if tier == "thorough" else []):
        d = bytes(igz.corpus(rng, cls, n))
        c = zlib.compressobj(6, zlib.DEFLATED, -15); raw = c.compress(d) + c.flush()
        parents.append((cls, raw, d))
    for rep in range(3):       # deflate data ending exactly on a byte boundary (the trailer then starts inside the decoder's bit buffer differently)
        raw = defgen.aligned_fixed_stream(rng, k8=rep * 3 + 2)
        parents.append(("aligned-end", raw, zlib.decompressobj(-15).decompress(raw)))
    for name, d in adler_edge_inputs(rng)[:5]:
        d = bytes(d); c = zlib.compressobj(6, zlib.DEFLATED, -15); parents.append((name, c.compress(d) + c.flush(), d))
    # stored blocks of one and two bytes (what zlib writes at level 0 for tiny payloads; no block ISA-L makes is that short): the trailer then sits in
    # the decoder's bit buffer together with the block's bytes
    def stored(data, final): return bytes([1 if final else 0, len(data) & 255, len(data) >> 8, (len(data) ^ 0xffff) & 255, (len(data) ^ 0xffff) >> 8]) + bytes(data)
    for a, b in ((1, 0), (2, 0), (1, 2), (2, 20), (3, 1)):
        da, db = bytes(igz.corpus(rng, "text", a)), bytes(igz.corpus(rng, "text", b))
        parents.append(("tiny-stored-%d-%d" % (a, b), (stored(da, False) + stored(db, True)) if b else stored(da, True), da + db))
    big = bytes(igz.corpus(rng, "text", 9000)); c = zlib.compressobj(6, zlib.DEFLATED, -15); bigraw = c.compress(big) + c.flush()
    for cls, raw, plain in parents:
        for mode in (1, 3, 5, 6):
            st = inflfam.wrap_stream(mode, raw, plain)
            n = len(st)
            tl = 8 if mode in (1, 6) else 4
            # valid stream with the trailer boundary at every call boundary
            for cut in range(max(0, n - tl - 3), n + 1):
                scns.append(igz.scenario(len(scns), "inflate", list(st), wrap=mode, calls=[[cut, 1 << 16, 0, 0], [n - cut, 1 << 16, 0, 0]], mem=k % 3, meta={"family": "valid-trailer-split"})); k += 1
            for a, b in ((1, 1 << 16), (1 << 16, 1), (1, 1), (1 << 16, len(plain)), (1 << 16, max(1, len(plain) - 1))):
                scns.append(igz.scenario(len(scns), "inflate", list(st), wrap=mode, tail_ai=a, tail_ao=b, cap=100000, mem=k % 3, meta={"family": "valid-chunked"})); k += 1
            scns.append(igz.scenario(len(scns), "inflate_stateless", list(st), wrap=mode, calls=[[n, 1 << 16, 0, 0]], meta={"family": "valid-oneshot"}))
            # every single-bit flip at every offset (header, body, trailer); for the checksum-boundary parents only the trailer bits
            for byte in (range(n) if not cls.startswith("adler") else range(n - tl, n)):
                for bit in range(8):
                    if tier == "quick" and byte < n - tl and (byte * 8 + bit + mode) % 5: continue
                    m = bytearray(st); m[byte] ^= 1 << bit
                    for api, ta, to in (("inflate_stateless", 1 << 16, 1 << 16), ("inflate", [1, 2, 1 << 16][(byte + bit) % 3], [1, 1 << 16, 5][(byte + bit) % 3])):
                        scns.append(igz.scenario(len(scns), api, list(m), wrap=mode, calls=[[n, 1 << 16, 0, 0]] if api == "inflate_stateless" else [], tail_ai=ta, tail_ao=to,
                                                 cap=100000, mem=k % 3, meta={"family": "bitflip-" + ("trailer" if byte >= n - tl else "body")})); k += 1
            # every truncation
            for cut in range(n):
                if (tier == "quick" or cls.startswith("adler")) and cut < n - tl - 2 and cut % (3 if not cls.startswith("adler") else 41): continue
                scns.append(igz.scenario(len(scns), "inflate", list(st[:cut]), wrap=mode, tail_ai=[1, 1 << 16][cut % 2], tail_ao=1 << 16, cap=100000, meta={"family": "truncation"}))
    # one 4 KB-class stream: a flip at every byte offset
    for mode in (1, 3):
        st = inflfam.wrap_stream(mode, bigraw, big)
        for byte in range(0, len(st), 1 if tier == "thorough" else 9):
            m = bytearray(st); m[byte] ^= 1 << (byte % 8)
            scns.append(igz.scenario(len(scns), "inflate", list(m), wrap=mode, tail_ai=[1 << 16, 100][byte % 2], tail_ao=[1 << 16, 333][byte % 2], cap=100000, meta={"family": "bitflip-large"}))
    return scns

def adler_edge_inputs(rng):
    """inputs whose Adler-32 state hits the boundary values of its two halves (A or B equal to 0 or 65520): the places where
    a conversion between the RFC form and the library's internal B|(A-1) form can go wrong. Built by construction / search;
    the spec (Checksums.tla) computes the real checksum of each."""
    M = 65521
    out = []
    def ab(d):
        a, b = 1, 0
        for x in d: a = (a + x) % M; b = (b + a) % M
        return a, b
    for target_a in (0, 65520, 1):
        d = [rng.randrange(256) for _ in range(rng.randrange(260, 400))]
        a, _ = ab(d)
        need = (target_a - a) % M
        while need > 0:
            x = min(255, need); d.append(x); need -= x
        out.append(("adler-A=%d" % target_a, d))
    for target_b in (0, 65520):
        for _ in range(200):
            d = [rng.randrange(256) for _ in range(rng.randrange(300, 500))]
            a, b = ab(d)
            # append two bytes x, y: b'' = b + 2a + 2x + y (mod M)
            found = None
            for x in range(256):
                y = (target_b - b - 2 * a - 2 * x) % M
                if y < 256: found = (x, y); break
            if found:
                out.append(("adler-B=%d" % target_b, d + list(found))); break
    big = [255] * 70000
    a, _ = ab(big); need = (0 - a) % M
    while need > 0:
        x = min(255, need); big.append(x); need -= x
    out.append(("adler-A=0-large", big))
    return out

def gen_producer(tier, rng):
    """producer side: every chunking of a few inputs through the compressor; the trailer is judged by TraceDeflate (Unwrap)"""
    scns = []
    k = 0
    for cls, n in [("text", 500), ("random", 300), ("empty", 0), ("zeros", 70000), ("records", 3000)] + ([("text", 100000)] if tier == "thorough" else []):
        inp = igz.corpus(rng, cls, n)
        for level in range(4):
            for wrap in (1, 2, 3, 4):
                for chunk, ao in ((1 << 20, 1 << 20), (7, 1 << 20), (1 << 20, 9), (101, 13), (1, 1 << 20)):
                    if n > 5000 and chunk < 100: continue
                    if tier == "quick" and (k % 3): k += 1; continue
                    k += 1
                    scns.append(igz.scenario(len(scns), "deflate", inp, level=level, wrap=wrap, lbuf=3, tail_ai=chunk, tail_ao=ao, cap=400000, mem=k % 3, meta={"family": "producer"}))
                scns.append(igz.scenario(len(scns), "deflate_stateless", inp, level=level, wrap=wrap, lbuf=3, calls=[[n, n * 2 + 500, 0, 1]], meta={"family": "producer-oneshot"}))
    # a flush left pending by a small output buffer, completed by a call that brings more input (the library then makes a second pass in the same
    # call): every first-output size around the compressed size of the first piece; the trailer must cover every byte
    seg = igz.corpus(rng, "text", 3000)
    for level in range(4):
        for wrap in (1, 3):
            for ao in (list(range(900, 1700, 23)) if level == 0 else list(range(1000, 1500, 17))) if tier == "quick" else range(600, 2200, 3):
                scns.append(igz.scenario(len(scns), "deflate", seg + seg[:700], level=level, wrap=wrap, lbuf=3, mem=ao % 3, calls=[[3000, ao, [1, 2][ao % 2], 0], [700, 1 << 16, [1, 2][ao % 2], 0], [0, 1 << 16, 0, 1]], tail_ao=1 << 16, cap=40,
                                         meta={"family": "producer-pending-flush-then-more-input"}))
    # the checksum kernels of other CPU generations (long 0xFF runs are the worst case of the Adler-32 accumulators)
    ffs_list = [[255] * 12000 + igz.corpus(rng, "text", 100)]
    for plen in (5552, 5568, 5600):          # a prefix that leaves the low half A just below 65521 at the start of a long 0xFF run (A near its maximum is the
        target = 65400 - 1 + 65521 * 10      #  other ingredient of the worst case), for reduction blocks of 5552 bytes and a little more
        pre = [target // plen] * plen
        for i in range(target - sum(pre)): pre[i] += 1
        ffs_list.append(pre + [255] * 6000 + igz.corpus(rng, "text", 50))
    for cpu in ("sse", "avx", "avx2", "base"):
      for ffs in ffs_list:
        for level in (0, 1):
            for wrap in (3, 4, 1):
                if tier == "quick" and wrap == 1 and ffs is not ffs_list[0]: continue
                scns.append(igz.scenario(len(scns), ["deflate", "deflate_stateless"][level], ffs, level=level, wrap=wrap, lbuf=3, calls=[[len(ffs), len(ffs) + 600, 0, 1]], tail_ao=1 << 16, meta={"family": "producer-other-cpu-levels", "cpu": cpu}))
    for name, inp in adler_edge_inputs(rng):
        n = len(inp)
        for level in range(4):
            for wrap in (3, 4, 1):
                scns.append(igz.scenario(len(scns), "deflate", inp, level=level, wrap=wrap, lbuf=3, tail_ai=[1 << 20, 100][level % 2], tail_ao=1 << 20, cap=100000, meta={"family": "producer-" + name}))
                scns.append(igz.scenario(len(scns), "deflate_stateless", inp, level=level, wrap=wrap, lbuf=3, calls=[[n, n * 2 + 500, 0, 1]], meta={"family": "producer-oneshot-" + name}))
    return scns

def run(tier, replay=None):
    v = Verdict("C11", tier)
    rng = random.Random(seed() * 30011 % (1 << 31) + 11)
    wd = workdir("c11")
    if replay:
        rp = json.load(open(replay))["replay"]["scenario"]
        vs, ps = ([rp], []) if rp["api"] in (2, 3) else ([], [rp])
    else:
        vs, ps = gen_verifier(tier, rng), gen_producer(tier, rng)
        # ... and the probe-located form of the same situation (the marker itself staged when the first call returns; see C14), gzip / zlib wrappers
        from props import c14
        for s_ in c14.pending_marker_family(tier, rng, wd, 0):
            if s_["wrap"] in (1, 3) and len(s_["inp"]) < 10000:
                ps.append(dict(s_, scn=len(ps), meta={"family": "producer-staged-marker-then-more-input"}))
    calls = 0
    fam = {}
    accepted_mutants = 0
    if vs:
        res, by, c, tw = inflfam.run_and_judge(v, vs, wd, "c11v")
        calls += c
        for s in vs:
            fam[s["meta"]["family"]] = fam.get(s["meta"]["family"], 0) + 1
            if s["meta"]["family"].startswith("bitflip") and res[s["scn"]]["ref"] == "Valid": accepted_mutants += 1
    if ps:
        recs, by2, summ = [], {}, {"calls": 0}
        for cpu in sorted(set(s["meta"].get("cpu", "host") for s in ps)):
            sub = [s for s in ps if s["meta"].get("cpu", "host") == cpu]
            r_, s_, b_ = igz.merge(sub, igz.run_harness(sub, wd, "c11p-" + cpu, cpu=None if cpu == "host" else cpu))
            recs += r_; by2.update(b_); summ["calls"] += s_.get("calls", 0)
        res2, tw2 = igz.judge("trace/TraceDeflate", recs, wd, "c11p", shards=12)
        igz.report(v, ps, res2, by2, prefix="producer:")
        calls += summ.get("calls", 0)
        for s in ps: fam[s["meta"]["family"]] = fam.get(s["meta"]["family"], 0) + 1
    cov = {"evaluations": len(vs) + len(ps), "distinct_nontrivial": sum(c for f, c in fam.items() if f.startswith("bitflip") or f == "truncation"), "calls": calls, "families": fam,
           "mutants_the_spec_still_accepts": accepted_mutants,
           "rule": "verifier: valid wrapped streams (gzip, zlib, ZLIB_NO_HDR_VER, GZIP_NO_HDR_VER) x every single-bit flip at every offset of header/body/trailer (stride-sampled for body bits in quick; every trailer bit always) and one 9 KB stream with a flip at every (9th) byte, every truncation, "
                   "input chunkings that put the trailer boundary at every call boundary, 1-byte chunks, output exactly/one short of the plain size; TLC (TraceInflate.tla) decides with Wrappers!Unwrap which mutants are still valid and requires FINISH/success only for those, "
                   "with state->crc equal to the spec's CRC-32/Adler-32 of the delivered bytes; producer: streams made under many chunkings in the 4 trailer-carrying modes are judged by TraceDeflate.tla (trailer = spec checksum and ISIZE). distinct_nontrivial = corrupted/truncated runs",
           "samples": [igz.describe(vs[min(5, len(vs) - 1)])] if vs else [igz.describe(ps[0])]}
    cleanup(wd)
    return v.finish("exploration", cov, ["checksums are defined in Checksums.tla (anchored to published check values)", "zlib is used only to produce the parent streams"])
