#!/usr/bin/env python3
"""Regenerates /verif/MANIFEST.json from the table below (so it is valid at all times)."""
import json, os, sys
VERIF = os.path.dirname(os.path.dirname(os.path.abspath(__file__)))
ALL = ["C%02d" % i for i in range(1, 21)]

CHECKS = {
 "C01": dict(cat="model_checking", ref="DESIGN.md §3 C01",
   text="Every compressed stream the real library produces over a covering sample of {level, flush, wrapper, hist_bits, table, level_buf size, simulated CPU level, one-shot/streaming} x an input corpus (incl. >64 KiB) is recorded call by call and judged by TLC against "
        "the RFC 1951/1950/1952 specification in spec/Deflate.tla + Wrappers.tla + Checksums.tla: the stream must be complete, decode to exactly the input, end at its last byte and carry the spec-computed trailer. ISA-L's own inflate is never consulted; compressed bytes are never compared with an expectation.",
   note="Trusted: TLC's evaluation of the decoder spec (itself validated against zlib/gzip-made streams); harness h_igzip.c records faithfully; inputs are sampled (VERIF_SEED).",
   technique="trace validation: recorded API traces of the real compressor judged by an executable TLA+ RFC 1951/1950/1952 decoder"),
 "C07": dict(cat="model_checking", ref="DESIGN.md §3 C07",
   text="Call histories (every single input split point, (in,out) chunk-size pairs incl. 1-byte buffers, random schedules with flush-mode changes and late end_of_stream, refill-before-drain, three chunk-memory disciplines) are replayed into isal_deflate and isal_inflate; "
        "each recorded trace is validated by TLC: per-call contract rules (accounting, progress, END/FINISH absorbing), compression output must decode (TLA+ decoder) to the concatenated input, decompression must deliver exactly the spec's decode of the same stream with the same final state/position/checksum in one-shot and streaming form. The control state machines of both codecs (spec/DeflateStreamOps.tla, spec/InflateStreamOps.tla: function-by-function transcriptions of igzip.c / igzip_inflate.c over abstract room/input classes) are model-checked by TLC on every run (DeflateStream, InflateStream x modes), every recorded call is looked up in their tabulated per-call relations (rules M1/M2, reported as drift), and the harness derives additional schedules from the model by always taking the least-visited environment choice from the control state the real stream is in.",
   note="Trusted: TLC's evaluation of the specs; harness; schedules sampled from VERIF_SEED plus systematic families.",
   technique="trace validation of recorded streaming call histories against the TLA+ stream contract and decoder"),
 "C02": dict(cat="exploration", ref="DESIGN.md §3 C02",
   text="Grammar-directed foreign streams (stored/fixed/dynamic in any order, empty blocks, complete prefix codes up to 15 bits, single-code distance alphabets, all length/distance symbol edges, overlapping copies, distance 32768, sizes around the multi-symbol thresholds) and zlib-made streams, "
        "wrapped for all 7 inflate modes, are decoded by the TLA+ reference decoder (spec/Deflate.tla, Wrappers.tla) and replayed one-shot and streaming under the three decode kernels (base/_01/_04 via the real resolver). TLC validates every recorded call: bytes, FINISH, reported input position = true end, state checksum.",
   note="Trusted: the TLA+ decoder (cross-checked against zlib on the same generator); generator and zlib only produce bytes.",
   technique="TLA+ reference decoder (TLC) judging recorded inflate traces of spec-classified generated streams"),
 "C05": dict(cat="exploration", ref="DESIGN.md §3 C05",
   text="Hardware page protection while replaying spec-generated behaviours: every buffer lives in its own mapping inside a sparse PROT_NONE arena; data-plane entry points (all EC, RAID, CRC/Adler, zero-detect variants, histogram collectors, ec_init_tables, generator-matrix builders, gf_invert_matrix) run for every len 0..N with first/last byte against an inaccessible page and canaries; "
        "streaming deflate/inflate run with every input chunk in an exact-size mapping that is unmapped or recycled-and-scribbled the moment it is consumed, the context directly after an inaccessible page and output flush against one, over pending-flush/refill, tiny-output, chunk-size and one-shot schedules. "
        "spec/Memory.tla states the footprint/lifetime contract and is model-checked (the variant that keeps a pointer into a consumed chunk violates it). All other checks also run under the same guard placements.",
   note="Detection is by page protection at buffer edges plus canaries: accesses that stay inside other live declared memory are invisible. The TLA+ part is the contract and the schedules, not the detector.",
   technique="replay of spec-derived behaviours under page protection; footprint/lifetime contract model-checked in TLA+"),
 "C06": dict(cat="exploration", ref="DESIGN.md §3 C06",
   text="Every truncation and every single-bit flip (stride-sampled for wrapped forms in quick) of short parent streams, byte substitutions, grammar-level single faults with their documented error class, wrapper faults and random byte strings are classified by the TLA+ decoder (Valid / Invalid(class) / NeedMore / lenient) "
        "and replayed one-shot and streaming under the three decode kernels with guard pages; TLC requires: success only if the spec accepts, output = spec output, documented codes, <= avail_out written, progress, documented class for injected faults.",
   note="Trusted: the TLA+ decoder's classification; 'lenient' inputs (incomplete code sets, reserved gzip flag bits) may go either way; counters after a negative return are not constrained.",
   technique="spec-classified mutants (exhaustive single-bit/truncation over chosen parents) replayed; traces validated by TLC"),
 "C11": dict(cat="exploration", ref="DESIGN.md §3 C11",
   text="Verifier: valid gzip/zlib/NO_HDR_VER streams x every single-bit flip of the trailer and (sampled in quick) of header/body, every truncation, chunkings placing the trailer boundary at every call boundary; TLC decides with Wrappers!Unwrap which mutants remain valid and requires success/FINISH only for those and state->crc = spec checksum. "
        "Producer: streams compressed under many chunkings in the four trailer-carrying modes must carry the spec-computed CRC-32+ISIZE / Adler-32 (TraceDeflate).",
   note="Trusted: Checksums.tla (anchored to published check values), Wrappers.tla.", technique="spec-classified corruption sweeps replayed; traces validated by TLC against the TLA+ container/checksum spec"),
 "C03": dict(cat="exploration", ref="DESIGN.md §3 C03",
   text="Expected parity for each (coefficients, sources) vector is computed by TLC from spec/EC.tla (GF(2^8) matrix product over the field of GF256.tla) and replayed into the real "
        "library: every encode wrapper (base, sse, avx, avx2, avx512, avx512_gfni, avx2_gfni, dispatched) and every gf_{1..6}vect_dot_prod_<isa> kernel, for every len 0..N, "
        "three guard-page placements and 64 alignments at selected lengths, rows covering all 6/5/4/3/2/1 batch remainders, k up to 127 (255 thorough). Outputs, canaries, sources and faults are checked. "
        "Exhaustive in len and placement per vector; inputs sampled from VERIF_SEED.",
   note="Trusted: TLC's evaluation of EC.tla/GF256.tla; harness h_ec.c; kernels called within documented minimum lengths; host executes all ISA variants natively.",
   technique="TLA+ spec evaluated by TLC as oracle generator; spec-generated vectors replayed into every implementation variant"),
 "C13": dict(cat="exploration", ref="DESIGN.md §3 C13",
   text="TLC folds EC!Update over an update order (identity, reversed, permuted, with an index applied twice) and emits the parity after every step, after confirming on the spec that a full pass equals EC!Encode. "
        "Each step is replayed from the spec's pre-state into ec_encode_data_update{_base,_sse,_avx,_avx2,_avx512,_avx512_gfni,_avx2_gfni,dispatched} and gf_{1..6}vect_mad_<isa>, every len 0..N, guard-page placements and alignments; "
        "gf_vect_mul{,_base,_sse,_avx} for every multiple of 32 (= EC!VectMul) and non-zero return otherwise.",
   note="Trusted: TLC's evaluation of EC.tla; harness h_ec.c; documented kernel minimum lengths respected.",
   technique="TLA+ spec evaluated by TLC as oracle generator; spec-generated step-by-step behaviours replayed into every variant"),
 "C04": dict(cat="exploration", ref="DESIGN.md §3 C04",
   text="spec/Checksums.tla defines one parametric bit-serial CRC (tables derived inside the spec) with the 12 ISA-L parameter sets and Adler-32; published check values are ASSUMEd on every run. "
        "TLC emits the checksum of every prefix of each message; the harness replays every variant (base, _00/_01/_02, by4, by8, by8_02, by16_10, dispatched, copy form, adler base/sse/avx2/bam1) for every len 0..N, "
        "alignments, guard-page placements and every split point of selected lengths (composition); lengths are dense around multiples of the Adler reduction block (5552) and powers of two; one message of 2^32 + r bytes per function (sparse zero-page mapping) is checked whole and composed against the spec's zero-run algebra (multiplication by x^(8n) mod P, validated against the fold on every run). Exhaustive in (len<=N, placement) per message; messages/seeds sampled from VERIF_SEED.",
   note="Trusted: TLC's evaluation of Checksums.tla; harness h_crc.c; seed conventions as documented in the headers.",
   technique="TLA+ definitional spec evaluated by TLC as oracle generator; prefix-sharing vectors replayed into every variant"),
 "C08": dict(cat="exploration", ref="DESIGN.md §3 C08",
   text="spec/Raid.tla defines P and Q (Horner form, cross-checked against the sum-of-2^i*D_i definition and the two-erasure recovery lemma by TLC on every vector). Expected P/Q are replayed into every xor_gen/pq_gen variant "
        "for every legal len with guard-page placements; xor_check/pq_check must accept the spec-consistent arrays and reject a single-byte corruption at every (block, position) for small len (sampled beyond); "
        "below-minimum vects with all pointers inaccessible must return non-zero without a fault.",
   note="Trusted: TLC's evaluation of Raid.tla; harness h_raid.c; documented alignment/length preconditions respected.",
   technique="TLA+ spec evaluated by TLC as oracle generator + spec-level recovery lemma; vectors and corruption sweeps replayed into every variant"),
 "C15": dict(cat="model_checking", ref="DESIGN.md §3 C15",
   text="spec/DispatchRace.tla models the only shared mutable state (one self-patching pointer slot per entry point) at machine-step granularity and is model-checked for 3 threads x 2 functions (ExecOK, SlotOK, Monotone, Progress; the torn-store variant violates ExecOK). "
        "Binding: slots are 8-byte aligned and written by one 8-byte store (checked on the built binary); the shared library built from the working tree is warmed up, its writable pages made read-only and the workload run on many threads (any write into library data or result differing from serial execution is a violation); "
        "fresh processes race first calls; determinism is checked as 2-safety by TLC (TraceEqual.tla) over pre-fill and reset/init reuse pairs (compressor: garbage pre-fill, reset after another stream, init after an abandoned one; decompressor: nine reset-after-X histories x six follow-up uses including the stand-alone header readers with caller buffers).",
   note="Interleavings are exhaustive only in the model; for the code the argument is structural (no writable global besides idempotent, atomically stored slots), observed under page protection.",
   technique="TLC model checking of the dispatch race model; binary and page-protection conformance checks; self-composition pairs judged by TLC"),
 "C16": dict(cat="exploration", ref="DESIGN.md §3 C16",
   text="Exhaustive over the dependency-closed CPU configuration space defined in spec/Dispatch.tla (19,440 configurations x all 42 entry points): TLC enumerates the configurations and the register images; the repository's real resolvers, "
        "re-assembled unmodified from the working tree with CPUID/XGETBV intercepted, are executed for every pair; the ISA requirement set of each selected implementation is computed from its machine code (transitively); "
        "TLC validates Req subseteq Avail and XGETBV=>OSXSAVE for every pair, and reports drift between the transcribed resolver macros and the real choice (currently 0 of 816,480). 'All choices agree' is decided by C01-C04, C08, C13, C20 which execute every variant.",
   note="Trusted: closure rules R1-R13 (what counts as an architecturally consistent CPU); the mnemonic/encoding classifier (lib/isa_classify.py); TLC.",
   technique="TLC enumeration of the TLA+ configuration space; trace validation of the real resolvers' selections against Dispatch!Avail"),
 "C17": dict(cat="exploration", ref="DESIGN.md §3 C17",
   text="Inputs repeating at distances 2^w-1, 2^w, 2^w+1, 32767..32769, 70000 for w=9..15 x levels x flush x simulated CPU levels, and dictionaries of length 1..70000 (set directly / pre-processed, at stream start and after a completed FULL flush) are compressed; TLC decodes every stream with the TLA+ decoder, "
        "which records per block the maximum distance and the minimum referenced position, and requires distance <= 2^w <= 32768, no reference before the data/dictionary, CINFO+8 >= w, round trip with the dictionary as preset history; "
        "pre-processed vs direct and long vs 32 KiB-tail dictionaries must give identical streams (TraceEqual.tla), wrong-state dictionary calls must be refused without effect, and isal_inflate primed with the same dictionary must reproduce the data (TraceInflate.tla).",
   note="Trusted: TLC/spec; harness; default 32 KiB history build.", technique="trace validation with the TLA+ decoder's per-block distance/reference bookkeeping; relational pairs judged by TLC"),
 "C18": dict(cat="exploration", ref="DESIGN.md §3 C18",
   text="isal_hufftables structures built by both builders from adversarial histograms (all-zero, single/two symbols, uniform, powers of two, Fibonacci depth-limit cases, values near 2^44, zero end-of-block count, collected by every isal_update_histogram variant) are dumped and judged by TLC with spec/HuffTables.tla: "
        "the stored header must parse (RFC 1951 header parser of Deflate.tla) to complete prefix codes with lengths <= 15, an EOB code, lit+len+dist <= 56 bits, and the encoder's lit/len/dist tables must equal the bit-reversed canonical codes; "
        "data is then compressed with each table (level 0, all flush modes, one-shot/streaming) and judged as in C01; set_hufftables attempted after every call must be refused while a block is open.",
   note="Trusted: HuffTables.tla / Deflate.tla; struct layout as documented in igzip_lib.h; default (2-entry dist table) build.",
   technique="trace validation of dumped table structures and of compression traces against the TLA+ table-validity and decoder specs"),
 "C19": dict(cat="model_checking", ref="DESIGN.md §3 C19",
   text="Recorded behaviour of the header writers and the resumable header readers is validated by TLC against the RFC 1952/1950 layouts in spec/Wrappers.tla: written bytes must be exactly as long as the layout and parse back (RFC byte order, FCHECK, CRC16) to the given fields, "
        "or the required size with the stream untouched; readers are driven over every split point of headers with every subset of optional fields, 1-byte chunks, undersized user buffers with growth (resume) and without, python-gzip-made headers, FDICT zlib headers and random byte strings, "
        "each chunk and user buffer flush against an inaccessible page; TLC requires documented codes, END_INPUT only with all input consumed, and on completion the fields and end position of the spec's own parse. The readers' resume-state machine (spec/HeaderIOOps.tla, HeaderIO.tla) is model-checked and every recorded reader call is checked to be one of its steps (rule M3, reported as drift).",
   note="Trusted: Wrappers.tla's transcription of the RFCs; harness h_hdr.c.", technique="trace validation of writer/reader call histories against the TLA+ RFC 1950/1952 layout spec"),
 "C20": dict(cat="exploration", ref="DESIGN.md §3 C20",
   text="Exhaustive sweep over (variant, len 0..N, alignment, position of a single non-zero byte, guard-page placement) of the zero-detect routine, plus dense contents (whole region / last 16, 32, 64, 128 bytes non-zero) at every (len, placement) and a sparse region of 4 GiB + 3000 bytes; aggregates per (variant, len) are judged by TLC against spec/MemZero.tla.",
   note="Trusted: aggregation in h_mem.c; TLC.", technique="exhaustive enumeration of the implementation input space within N, judged by TLC against the TLA+ definition"),
 "C09": dict(cat="exploration", ref="DESIGN.md §3 C09",
   text="TLC judges recorded behaviour of the real code against EC.tla/GF256.tla: generator matrices equal the documented formulas; gf_invert_matrix returns success exactly for non-singular inputs (Gauss-Jordan in the spec) and in*out=I, "
        "on random / rank-deficient-by-construction / zero-pivot matrices; an erasure sweep drives the real generator -> invert -> init_tables -> encode pipeline over every k-subset of survivors (exhaustive for small m and for every bounded row of the documented Vandermonde-safe table, sampled for large m) "
        "and TLC requires zero failures inside the spec's safe set. Spec-only: TLC enumerates all survivor sets of the spec's own matrices for m <= 9 (11 thorough).",
   note="Trusted: TLC's evaluation of GF256!Invert; harness h_c09.c; for the sweep the expected value is the original data (property is its own oracle).",
   technique="trace validation of recorded generator/inversion/erasure-sweep results against the TLA+ spec; spec-level survivor-set enumeration by TLC"),
 "C10": dict(cat="model_checking", ref="DESIGN.md §3 C10",
   text="One-shot compression is driven for every avail_out in 0..Bound+16 (small inputs; a window around Bound for 64 KiB-class inputs) x levels x wrappers with the output buffer flush against an inaccessible page; invalid level/flush/level_buf values; "
        "streaming with end_of_stream and 1..17-byte output chunks. TLC validates every recorded call against the contract in TraceDeflate.tla: no write beyond avail_out, counters = pointer advances, Bound(n,w) defined in the spec => COMP_OK and total_out <= Bound, "
        "success only with a complete stream that the TLA+ decoder expands to the input, STATELESS_OVERFLOW otherwise, parameter errors with no effect, END within the call cap.",
   note="Trusted: TLC/spec; harness; documented exception that stateless level 1 may run without a level buffer.",
   technique="trace validation of avail_out sweeps and termination schedules against the TLA+ output-space contract"),
 "C14": dict(cat="model_checking", ref="DESIGN.md §3 C14",
   text="Flush requests at every input position, several per stream, first-call avail_out swept so that header/body/marker stay pending when new input arrives, 1-5 byte output chunks splitting the marker. At every completed flush point (call returned with flush set, avail_in=0, avail_out>0) "
        "TLC decodes the output so far incrementally with the TLA+ decoder: byte aligned, ends with an empty stored block, decodes to everything fed; after a completed FULL flush no later block references earlier data and the suffix decodes alone; appended one-shot raw FULL_FLUSH outputs form one valid stream.",
   note="Trusted: TLC/spec; harness.", technique="trace validation of flush histories; flush points judged by the executable TLA+ decoder"),
 "C12": dict(cat="exploration", ref="DESIGN.md §3 C12",
   text="Exhaustive over the implementation's whole input space: all 65,536 gf_mul operand pairs, all 256 gf_inv operands and every byte of "
        "the table expansions of all 256 constants (gf_vect_mul_init, ec_init_tables_base, dispatched ec_init_tables, ec_init_tables_gfni) are "
        "recorded from the real code and compared by TLC with the field defined in spec/GF256.tla from the polynomial 0x11D (GFNI matrices via the "
        "GF2P8AFFINEQB semantics for all 256 operands). The field axioms are checked by TLC on the spec itself. Thorough repeats on the GF_LARGE_TABLES build.",
   note="Trusted: TLC's evaluation of GF256.tla; the dump harness h_gf12.c; the SDM semantics of GF2P8AFFINEQB as transcribed in Affine().",
   technique="TLA+ field definition evaluated by TLC; exhaustive trace validation of recorded implementation values"),
}
NA_REASON = "not claimed"
# families added later (kept apart from the base texts above)
ADDED = {
 "C02": " Also: payloads whose Adler-32 halves sit on their boundary values in the three zlib modes; streams of short-code blocks larger than the 64 KiB staging buffer with input/output ending at every byte near the boundary; the decoder told the window size (hist_bits); and round trips in the documented build variants IGZIP_HIST_SIZE=8192 and LONGER_HUFFTABLE (library and harness rebuilt with the define).",
 "C01": " Later input classes: constant runs of every length, Adler-32 boundary inputs, mixes of long far-match symbols, alphabets with gaps of exact sizes (zero runs of 3, 10-12, 137-140, 148-150 code lengths), and near-miss far matches (KEY x CONT ... KEY CONT at the first and last distance of every distance code) under the AVX-512, AVX2 and base levels; a long run beginning at every fill level of the smallest token buffers; single matches at every length-code edge; one far match per distance code; hist_bits 1-8 with 1-bit literals in groups; whole stored sub-blocks with the output at the bound.",
 "C10": " Later: inputs that begin with a long 0x00 / 0xFF run (the one-shot path's dedicated routine; up to 100000 bytes, 300000 in the thorough tier) with avail_out swept from 0 past the size needed.",
 "C12": " Tables are also built into slots at odd addresses. The clause 'any table-driven product of c with a byte equals the field product' is also checked literally: every gf_vect_mul variant (base, dispatched, sse, avx) over all 256 byte values at two lane positions for every constant.",
 "C11": " Later: verifier parents made of 1- and 2-byte stored blocks; producer with a flush left pending and completed together with more input (coarse sweep plus the probe-located staged-marker family of C14) and under the other CPU levels on worst-case Adler inputs.",
 "C19": " The same headers are also fed through isal_inflate (its own reader path) at every split point, with and without header CRC, and zlib headers announcing a dictionary; judged by TraceInflate. Every value of each fixed header byte in turn (magic, method, flags; zlib CMF).",
 "C06": " Later families: mutants of the library's own streams under model-guided schedules, deep incomplete distance sets, one-shot decoding at every output size, the exact 'repeat previous length first' fault, Adler-boundary payloads with every trailer bit flipped, invalid look-back streams one-shot at every output size under every kernel.",
 "C17": " hist_bits is also chosen after the dictionary calls (only the level is documented as needed before them); dictionaries longer than the window with data referring to the oldest bytes of their last 32 KiB (both codecs); window restarts with unaligned level buffers. spec/HashWindow.tla (position arithmetic of the match finders) is model-checked in four variants.",
 "C18": " The table installation attempted after every call alternates the static and the custom table, and the first call's output room is swept so that the block header is left half written behind a gzip/zlib header. Literal-gap histograms (gaps of 3, 10-12, 137-140, 148, 149) for the subset builder.",
 "C05": " spec/DeflateBuffer.tla (byte budget of the internal buffer when a stored block is admitted) is model-checked with the two repairs as switches. Later families: every input length with the smallest level buffers (buffer ending at an inaccessible page), level buffers at unaligned addresses, stored tails waiting in the internal buffer behind a pending wrapper header, and the level-3 look-ahead queued behind a pending stored block (two probe runs of the library locate the block length and input position, avail_out is swept around it).",
 "C07": " Later families: model-guided schedules (least-visited environment choice from the current state of the TLA+ control machine), packed streams around the 64 KiB staging buffer, long matches and stored blocks resuming at its end, small-then-huge calls.",
 "C08": " Vector counts below the documented minimum, including negative ones, must be refused by every variant.",
 "C09": " The Cauchy recover sweeps are repeated under every simulated CPU level (base, sse, avx, avx2, avx512, avx2+gfni) through the re-assembled resolvers, with a different block length per level.",
 "C14": " A FULL_FLUSH request that ran out of output space and is kept by every following call makes the marker written for that input position a full-flush point as well (rule D7 for pending requests); the first call's output size is swept around the compressed size learnt from a probe run. spec/FullFlushHistory.tla is the design-level model (repaired design satisfies NoCrossReference; the original and half-repaired ones violate it with the call histories this family replays). FULL_FLUSH beyond 64 KiB in near-window-periodic data.",
 "C15": " Determinism pairs also vary the prior contents of the output buffer (zero / 0xFF / random) over ordinary and long constant-run inputs, one-shot and streaming, and the scratch hash table inside isal_huff_histogram (left by earlier calls, constant fills, 30000 short inputs whose repeated sequence first occurs inside a match), the isal_dict structure, and the decompressor state (valid streams and streams using an unassigned code of an incomplete set).",
 "C16": " Closure rule R2 (PCLMULQDQ => SSE4.1) was dropped: the two bits are architecturally independent (19452 configurations).",
}

def main():
    checks = []
    for pid in ALL:
        if pid not in CHECKS: continue
        c = CHECKS[pid]
        checks.append({
          "property_id": pid,
          "quick_cmd": "bin/check %s --tier quick" % pid,
          "thorough_cmd": "bin/check %s --tier thorough" % pid,
          "evidence_file": "/verif/evidence/%s.json" % pid,
          "replay_cmd_template": "bin/check %s --replay {path}" % pid,
          "engine": "tlc+harness",
          "level_claimed": {"category": c["cat"], "text": c["text"] + ADDED.get(pid, ""), "design_ref": c["ref"]},
          "level_note": c["note"], "technique": c["technique"]})
    m = {"version": 1,
         "setup_cmd": "bin/setup",
         "hooks": {"guard": "ISAL_VERIF",
                   "enable": "make -f Makefile.unx -C /repo O=/verif/build/lib-<hash>/bin lib_name=/verif/build/lib-<hash>/isa-l.a D=ISAL_VERIF lib (out-of-tree build of the working tree; done by lib/verif.py:libdir)",
                   "baseline_off_cmd": "make -C /repo -j8 check",
                   "source_commits": [], "add_only": True},
         "engines": [{"name": "tlc+harness", "path": "/verif/bin/check", "serves_properties": sorted(CHECKS),
                      "kind_free_text": "TLA+ specifications under /verif/spec evaluated/model-checked by TLC 1.8; C harness under /verif/harness drives the library built from /repo's working tree; vectors flow TLC->harness (direction G) and recorded traces harness->TLC (direction V)"}],
         "checks": checks,
         "notes": "See DESIGN.md. Exit 2 from a check means infrastructure failure, never a verdict.",
         "not_applicable": [{"property_id": p, "reason": NA_REASON} for p in ALL if p not in CHECKS]}
    with open(os.path.join(VERIF, "MANIFEST.json"), "w") as f:
        json.dump(m, f, indent=1); f.write("\n")
    try:
        import jsonschema
        jsonschema.validate(m, json.load(open("/root/.vp/MANIFEST.schema.json")))
        print("MANIFEST.json valid,", len(checks), "checks")
    except ImportError:
        print("MANIFEST.json written (jsonschema not importable here)")
if __name__ == "__main__":
    main()
