"""Shared driver machinery: build /repo's working tree out-of-tree, run TLC, write evidence,
apply the known-findings protocol.  Python stdlib only."""
import hashlib, json, os, re, shutil, subprocess, sys, time, glob, tempfile

VERIF = os.path.dirname(os.path.dirname(os.path.abspath(__file__)))
REPO = os.environ.get("VERIF_REPO", "/repo")
# a scratch tree (seeded-change evaluation: VERIF_REPO=/tmp/... bin/check <id>) gets its own build and evidence directories,
# so it can never disturb the library cache or the evidence of /repo itself
SCRATCH = os.path.realpath(REPO) != "/repo"
BUILD = os.path.join(VERIF, "build") if not SCRATCH else os.path.join("/tmp", "verif-build-" + hashlib.sha1(os.path.realpath(REPO).encode()).hexdigest()[:10])
EVIDENCE = os.path.join(VERIF, "evidence") if not SCRATCH else os.path.join(BUILD, "evidence")
SPEC = os.path.join(VERIF, "spec")
HARNESS = os.path.join(VERIF, "harness")
GUARD = "ISAL_VERIF"
NPROC = int(os.environ.get("VERIF_JOBS", "16"))

class Infra(Exception):
    """Infrastructure failure (build, TLC parse error, timeout): exit 2, never a verdict."""

class Crash(Exception):
    """A harness process was killed by SIGSEGV/SIGBUS/SIGILL/SIGFPE/SIGABRT while driving the library OUTSIDE a guarded call (e.g. while the
    library built a table, or because an earlier call corrupted memory the harness uses). The harnesses never fault on their own on the
    unchanged tree, so this is reported as a violation (memory safety), not as an infrastructure failure."""

def seed():
    try:
        return int(os.environ.get("VERIF_SEED", "1"))
    except ValueError:
        return 1

def log(*a):
    print(*a, file=sys.stderr, flush=True)

def sh(cmd, timeout=1200, cwd=None, env=None, check=True, capture=True):
    e = dict(os.environ)
    if env:
        e.update(env)
    try:
        r = subprocess.run(cmd, shell=isinstance(cmd, str), cwd=cwd, env=e, timeout=timeout,
                           stdout=subprocess.PIPE if capture else None,
                           stderr=subprocess.STDOUT if capture else None, text=True, errors="replace")
    except subprocess.TimeoutExpired as x:
        raise Infra("timeout after %ss: %s" % (timeout, cmd if isinstance(cmd, str) else " ".join(cmd)))
    if check and (r.returncode in (-11, -7, -4, -8, -6) or (r.returncode == 3 and "harness: unexpected signal" in (r.stdout or ""))):
        raise Crash("the process driving the library died (exit %d): %s\n%s" % (r.returncode, cmd if isinstance(cmd, str) else " ".join(cmd), (r.stdout or "")[-1500:]))
    if check and r.returncode != 0:
        raise Infra("command failed (%d): %s\n%s" % (r.returncode, cmd if isinstance(cmd, str) else " ".join(cmd), (r.stdout or "")[-4000:]))
    return r

# ---------------------------------------------------------------- source hash / library build
SRC_PAT = re.compile(r".*\.(c|h|asm|inc|S|am|unx|mk)$|.*/make\.inc$|.*/Makefile[^/]*$")

def tree_hash():
    """Hash of every source file of /repo's working tree that can influence the library."""
    h = hashlib.sha256()
    for root, dirs, files in os.walk(REPO):
        dirs[:] = sorted(d for d in dirs if d not in (".git", ".libs", ".deps", "autom4te.cache", "bin", "_build"))
        for f in sorted(files):
            p = os.path.join(root, f)
            if SRC_PAT.match(p):
                try:
                    with open(p, "rb") as fh:
                        data = fh.read()
                except OSError:
                    continue
                h.update(os.path.relpath(p, REPO).encode())
                h.update(b"\0")
                h.update(hashlib.sha256(data).digest())
    return h.hexdigest()[:16]

_libdir = None

def libdir(extra_defs=""):
    """Build the static library from /repo's *current working tree* into /verif/build/lib-<hash>
    (nothing is written into /repo). Reused while the tree is unchanged; older builds are removed."""
    global _libdir
    tag = tree_hash()
    key = tag + ("" if not extra_defs else "-" + hashlib.sha1(extra_defs.encode()).hexdigest()[:8])
    d = os.path.join(BUILD, "lib-" + key)
    if os.path.exists(os.path.join(d, "isa-l.a")) and os.path.exists(os.path.join(d, "ok")):
        return d
    os.makedirs(BUILD, exist_ok=True)
    # only the newest tree is kept
    for old in glob.glob(os.path.join(BUILD, "lib-*")):
        if not os.path.basename(old).startswith("lib-" + tag):
            shutil.rmtree(old, ignore_errors=True)
    tmp = d + ".tmp%d" % os.getpid()
    shutil.rmtree(tmp, ignore_errors=True)
    os.makedirs(tmp)
    defs = GUARD + ((" " + extra_defs) if extra_defs else "")
    t0 = time.time()
    sh(["make", "-f", "Makefile.unx", "-C", REPO, "-j%d" % NPROC, "O=" + tmp + "/bin",
        "lib_name=" + tmp + "/isa-l.a", "D=" + defs, "lib"], timeout=900)
    open(os.path.join(tmp, "ok"), "w").write(tag)
    try:
        os.rename(tmp, d)
    except OSError:
        shutil.rmtree(tmp, ignore_errors=True)   # a concurrent check won the race
    log("[build] library from %s working tree -> %s (%.1fs)" % (REPO, d, time.time() - t0))
    return d

def solib():
    """shared library built from the working tree (out of tree), for the page-protection run of C15"""
    d = libdir()
    so = os.path.join(d, "so", "libisal.so")
    if os.path.exists(so): return so
    os.makedirs(os.path.join(d, "so"), exist_ok=True)
    sh(["make", "-f", "Makefile.unx", "-C", REPO, "-j%d" % NPROC, "O=" + d + "/so/bin", "so_lib_name=" + so, "D=" + GUARD, "slib"], timeout=900)
    if not os.path.exists(so):
        c = glob.glob(os.path.join(d, "so", "libisal.so*"))
        if not c: raise Infra("shared library build produced nothing")
        so = c[0]
    return so

def build_harness(name, sources, extra_defs="", cflags="", libs=""):
    """Compile a harness program against the library built from the working tree."""
    d = libdir(extra_defs)
    out = os.path.join(d, name)
    srcs = [os.path.join(HARNESS, s) for s in sources]
    deps = srcs + glob.glob(os.path.join(HARNESS, "*.h"))
    if os.path.exists(out) and all(os.path.getmtime(out) >= os.path.getmtime(s) for s in deps):
        return out
    tmp = out + ".tmp%d" % os.getpid()
    defs = " ".join("-D" + x for x in (GUARD + " " + extra_defs).split())
    sh("gcc -O1 -g -Wall -Wno-unused-function %s -I%s/include -I%s/igzip -I%s/erasure_code -I%s %s -o %s %s -Wl,--whole-archive %s/isa-l.a -Wl,--no-whole-archive %s -lpthread -ldl" %
       (defs, REPO, REPO, REPO, HARNESS, cflags, tmp, " ".join(srcs), d, libs), timeout=600)
    os.rename(tmp, out)
    return out

# ---------------------------------------------------------------- TLC
def workdir(tag):
    d = os.path.join(BUILD, "run", "%s-%d" % (tag, os.getpid()))
    # reap what killed runs (timeout, OOM) left behind: directories whose owning process is gone
    for old in glob.glob(os.path.join(BUILD, "run", "*-*")):
        try:
            pid = int(old.rsplit("-", 1)[1])
        except ValueError:
            continue
        if pid != os.getpid() and not os.path.exists("/proc/%d" % pid) and not os.environ.get("VERIF_KEEP"):
            shutil.rmtree(old, ignore_errors=True)
    shutil.rmtree(d, ignore_errors=True)
    os.makedirs(d)
    return d

def cleanup(d):
    if os.environ.get("VERIF_KEEP"):
        return
    shutil.rmtree(d, ignore_errors=True)

TLC_JAR = "/opt/veriftools/tla/tla2tools.jar:/opt/veriftools/tla/CommunityModules-deps.jar"

def tlc(module, cfg=None, wd=None, env=None, timeout=900, workers=1, extra=None, xmx="4g", xss="512m", allow_violation=False, gc="parallel"):
    """Run TLC on spec/<module>.tla (module may contain a sub-path). Returns dict with stdout,
    states generated / distinct, and 'ok'. Parse errors, timeouts => Infra."""
    path = os.path.join(SPEC, module + ".tla")
    moddir = os.path.dirname(path)
    own = wd is None
    if own:
        wd = workdir("tlc-" + os.path.basename(module))
    import uuid
    meta = os.path.join(wd, "meta-%s-%s" % (os.path.basename(module), uuid.uuid4().hex[:12]))
    cfgp = cfg if cfg and os.path.isabs(cfg) else os.path.join(moddir, (cfg or os.path.basename(module)) + ("" if (cfg or "").endswith(".cfg") else ".cfg"))
    # TLC resolves EXTENDS relative to the spec's directory plus -DTLA-Library
    libs = os.pathsep.join([SPEC, os.path.join(SPEC, "gen"), os.path.join(SPEC, "trace"), os.path.join(SPEC, "mc")])
    gcflags = ["-XX:+UseSerialGC", "-Xmn256m"] if gc == "serial" else ["-XX:+UseParallelGC", "-XX:ParallelGCThreads=2"]
    cmd = ["java"] + gcflags + ["-XX:CICompilerCount=2", "-XX:TieredStopAtLevel=4", "-Xmx" + xmx, "-Xss" + xss, "-DTLA-Library=" + libs,
           "-Djava.io.tmpdir=" + wd, "-cp", TLC_JAR, "tlc2.TLC", "-noGenerateSpecTE", "-workers", str(workers),
           "-metadir", meta, "-config", cfgp] + (extra or []) + [path]
    e = dict(os.environ)
    e.pop("JAVA_TOOL_OPTIONS", None)
    if env:
        e.update({k: str(v) for k, v in env.items()})
    t0 = time.time()
    try:
        r = subprocess.run(cmd, cwd=wd, env=e, timeout=timeout, stdout=subprocess.PIPE, stderr=subprocess.STDOUT, text=True, errors="replace")
    except subprocess.TimeoutExpired:
        raise Infra("TLC timeout (%ss) on %s" % (timeout, module))
    out = r.stdout
    res = {"stdout": out, "rc": r.returncode, "wall": time.time() - t0, "module": module}
    m = re.search(r"(\d+) states generated, (\d+) distinct states found", out)
    res["generated"] = int(m.group(1)) if m else 0
    res["distinct"] = int(m.group(2)) if m else 0
    m = re.search(r"The depth of the complete state graph search is (\d+)", out)
    res["depth"] = int(m.group(1)) if m else 0
    res["ok"] = (r.returncode == 0 and "Model checking completed. No error has been found" in out)
    shutil.rmtree(meta, ignore_errors=True)
    if not res["ok"]:
        viol = ("is violated" in out or "Invariant" in out and "violated" in out or "Assumption" in out and "is false" in out
                or "Deadlock reached" in out or "Temporal properties were violated" in out)
        if not (allow_violation and viol):
            try:
                open(os.path.join(BUILD, "last-tlc-failure.log"), "w").write(" ".join(cmd) + "\n" + out)
            except OSError:
                pass
            if own:
                cleanup(wd)
            raise Infra("TLC failed on %s (rc=%d):\n%s" % (module, r.returncode, out[-2500:]))
    if own:
        cleanup(wd)
    return res

def coverage_actions(out):
    """Parse '-coverage' style per-action counts '<Action line .. of module M>: taken:generated'."""
    acts = {}
    for m in re.finditer(r"<(\w+) line \d+, col \d+ to line \d+, col \d+ of module (\w+)>: (\d+):(\d+)", out):
        acts[m.group(2) + "!" + m.group(1)] = [int(m.group(3)), int(m.group(4))]
    return acts

# ---------------------------------------------------------------- ndjson
def read_ndjson(path):
    with open(path) as f:
        return [json.loads(l) for l in f if l.strip()]

def write_ndjson(path, recs):
    with open(path, "w") as f:
        for r in recs:
            f.write(json.dumps(r, separators=(",", ":")) + "\n")

# ---------------------------------------------------------------- known findings / verdict / evidence
def known_findings():
    p = os.path.join(VERIF, "known_findings.json")
    if not os.path.exists(p):
        return []
    return json.load(open(p)).get("findings", [])

def tlc_cached(module, cfg=None, **kw):
    """model-check a TLC-alone configuration, remembering the outcome per content hash of spec/ (the result depends on nothing else)"""
    import hashlib, glob
    h = hashlib.sha256()
    for f in sorted(glob.glob(os.path.join(SPEC, "*.tla")) + glob.glob(os.path.join(SPEC, "mc", "*"))):
        h.update(f.encode()); h.update(open(f, "rb").read())
    key = os.path.join(BUILD, "mc-%s-%s-%s.json" % (os.path.basename(module), (cfg or "default").replace(".cfg", ""), h.hexdigest()[:16]))
    if os.path.exists(key):
        r = json.load(open(key)); r["cached"] = True; return r
    r = tlc(module, cfg=cfg, **kw)
    out = {"ok": r["ok"], "distinct": r["distinct"], "generated": r["generated"], "wall": r["wall"], "cached": False}
    os.makedirs(BUILD, exist_ok=True)
    for old in glob.glob(os.path.join(BUILD, "mc-%s-%s-*.json" % (os.path.basename(module), (cfg or "default").replace(".cfg", "")))): os.remove(old)
    json.dump(out, open(key, "w"))
    return out

class Verdict:
    """Collects violations; each violation carries a 'key' string that is matched against
    known_findings.json (status 'known' suppresses exactly that key; 'fixed' suppresses nothing)."""
    def __init__(self, pid, tier):
        self.pid, self.tier = pid, tier
        self.violations = []     # (key, description, replay dict)
        self.t0 = time.time()
        self.known = [f for f in known_findings() if f.get("property") == pid and f.get("status") == "known"]
        self.known_hit = {}

    def violation(self, key, desc, replay):
        for f in self.known:
            if re.fullmatch(f["key"], key):
                self.known_hit.setdefault(f["key"], (f, desc))
                return
        self.violations.append((key, desc, replay))

    def finish(self, level, coverage, assumptions, extra=None):
        os.makedirs(EVIDENCE, exist_ok=True)
        ev = {"property_id": self.pid, "tier": self.tier, "seed": seed(), "level": level,
              "coverage": coverage, "assumptions": assumptions,
              "wall_s": round(time.time() - self.t0, 2), "violations": len(self.violations)}
        if self.known_hit:
            ev["known_findings_seen"] = sorted(self.known_hit)
        if extra:
            ev.update(extra)
        with open(os.path.join(EVIDENCE, self.pid + ".json"), "w") as f:
            json.dump(ev, f, indent=1)
            f.write("\n")
        if not os.environ.get("VERIF_REPLAYING"):     # replay files of an earlier run of this check are stale now
            import glob
            for old in glob.glob(os.path.join(BUILD, "replay", "%s-*.json" % self.pid)): os.remove(old)
        for k, (f, desc) in sorted(self.known_hit.items()):
            print("KNOWN-FINDING: property=%s %s" % (self.pid, f.get("what", k)))
        if self.violations:
            rdir = os.path.join(BUILD, "replay")
            os.makedirs(rdir, exist_ok=True)
            seen = set()
            n = 0
            for i, (key, desc, replay) in enumerate(self.violations):
                first = key not in seen
                if not first and n >= 20:
                    continue                      # one replay file per distinct key, plus the first 20 overall
                if first and len(seen) >= 60:
                    continue
                seen.add(key)
                p = os.path.join(rdir, "%s-%d.json" % (self.pid, n))
                n += 1
                with open(p, "w") as f:
                    json.dump({"property": self.pid, "key": key, "what": desc, "replay": replay}, f)
                if first:
                    print("  %s: %s" % (key, desc))
                print("VIOLATION property=%s replay=%s" % (self.pid, p))
            return 1
        print("OK property=%s tier=%s wall=%.1fs %s" % (self.pid, self.tier, time.time() - self.t0,
              " ".join("%s=%s" % (k, v) for k, v in coverage.items() if isinstance(v, (int, bool)))))
        return 0
