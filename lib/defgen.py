"""Producer of deflate streams ISA-L's own compressor never makes (inputs for C02/C06/C11).
It only PRODUCES bytes: whether a stream is valid and what it decodes to is decided by the TLA+
decoder (spec/Deflate.tla), never by this file.  Grammar-directed: stored / fixed / dynamic blocks in any
order, empty blocks, arbitrary complete prefix codes up to 15 bits, every length/distance symbol,
overlapping copies, distance 32768; optional single-fault injection."""
import random

LEN_BASE = [3,4,5,6,7,8,9,10,11,13,15,17,19,23,27,31,35,43,51,59,67,83,99,115,131,163,195,227,258]
LEN_EXTRA = [0,0,0,0,0,0,0,0,1,1,1,1,2,2,2,2,3,3,3,3,4,4,4,4,5,5,5,5,0]
DIST_BASE = [1,2,3,4,5,7,9,13,17,25,33,49,65,97,129,193,257,385,513,769,1025,1537,2049,3073,4097,6145,8193,12289,16385,24577]
DIST_EXTRA = [0,0,0,0,1,1,2,2,3,3,4,4,5,5,6,6,7,7,8,8,9,9,10,10,11,11,12,12,13,13]
CL_ORDER = [16,17,18,0,8,7,9,6,10,5,11,4,12,3,13,2,14,1,15]

class BitWriter:
    def __init__(self): self.out = bytearray(); self.acc = 0; self.n = 0
    def bits(self, v, n):          # LSB first
        self.acc |= (v & ((1 << n) - 1)) << self.n; self.n += n
        while self.n >= 8:
            self.out.append(self.acc & 255); self.acc >>= 8; self.n -= 8
    def code(self, c, n):          # Huffman code: MSB first
        for i in range(n - 1, -1, -1): self.bits((c >> i) & 1, 1)
    def align(self):
        if self.n: self.bits(0, 8 - self.n)
    def bytes_(self, b):
        assert self.n == 0; self.out += bytes(b)
    def done(self):
        self.align(); return bytes(self.out)

def canon(lengths):
    """canonical codes (RFC 1951 3.2.2) for a list of code lengths"""
    maxl = max(lengths) if lengths else 0
    bl = [0] * (maxl + 2)
    for l in lengths:
        if l: bl[l] += 1
    code, nxt = 0, [0] * (maxl + 2)
    for b in range(1, maxl + 1):
        code = (code + bl[b - 1]) << 1; nxt[b] = code
    codes = [0] * len(lengths)
    for i, l in enumerate(lengths):
        if l: codes[i] = nxt[l]; nxt[l] += 1
    return codes

def random_complete_lengths(rng, nsyms, maxdepth, skew=0.5):
    """lengths of a complete prefix code with nsyms leaves, depth <= maxdepth (split-a-leaf process)"""
    if nsyms == 1: return [1]
    leaves = [1, 1]
    while len(leaves) < nsyms:
        cand = [i for i, l in enumerate(leaves) if l < maxdepth]
        if not cand: raise ValueError("cannot reach %d leaves at depth %d" % (nsyms, maxdepth))
        # skew towards deep leaves to get long codes
        i = max(cand, key=lambda j: leaves[j]) if rng.random() < skew else rng.choice(cand)
        l = leaves.pop(i); leaves += [l + 1, l + 1]
    rng.shuffle(leaves)
    return leaves

def len_sym(length):
    for s in range(28, -1, -1):
        if LEN_BASE[s] <= length and (s == 28) == (length == 258):
            if s != 28 and length - LEN_BASE[s] >= (1 << LEN_EXTRA[s]): continue
            return s
    raise ValueError(length)

def dist_sym(dist):
    for s in range(29, -1, -1):
        if DIST_BASE[s] <= dist: return s
    raise ValueError(dist)

def random_tokens(rng, n_tokens, have, style):
    """tokens: ('lit', b) | ('match', len, dist). `have` = bytes of output already produced before this block"""
    toks, total = [], have
    for _ in range(n_tokens):
        if total == 0 or rng.random() < (0.9 if style == "lits" else 0.45):
            toks.append(("lit", rng.randrange(256) if style != "lowent" else rng.choice([65, 66, 255, 0]))); total += 1
        else:
            if style == "edges":
                ln = rng.choice([3, 4, 10, 11, 12, 18, 19, 34, 35, 66, 67, 130, 131, 257, 258])
                d = rng.choice([1, 2, 3, 4, 5, 8, 9, 16, 17, 32, 33, 256, 257, 4096, 4097, 16384, 16385, 24576, 24577, 32767, 32768])
            else:
                ln = rng.choice([3, 3, 4, 5, 8, 30, 258, rng.randrange(3, 259)])
                d = rng.choice([1, 1, 2, rng.randrange(1, 40), rng.randrange(1, 32769)])
            d = min(d, total)
            toks.append(("match", ln, d)); total += ln
    return toks, total

def emit_tokens(bw, toks, ll_len, ll_code, d_len, d_code):
    for t in toks:
        if t[0] == "lit":
            bw.code(ll_code[t[1]], ll_len[t[1]])
        else:
            _, ln, d = t
            s = len_sym(ln); bw.code(ll_code[257 + s], ll_len[257 + s]); bw.bits(ln - LEN_BASE[s], LEN_EXTRA[s])
            ds = dist_sym(d); bw.code(d_code[ds], d_len[ds]); bw.bits(d - DIST_BASE[ds], DIST_EXTRA[ds])
    bw.code(ll_code[256], ll_len[256])

def rle_lengths(rng, seq, style):
    """code-length alphabet symbols with repeat codes: list of (sym, extra_bits_value, extra_bits_count)"""
    out, i = [], 0
    while i < len(seq):
        v = seq[i]; run = 1
        while i + run < len(seq) and seq[i + run] == v: run += 1
        if style == "zero16" and v == 0 and run >= 6:
            # a short zero run (17) continued with "copy previous length" (16): legal, and never produced by zlib or ISA-L
            out.append((17, 0, 3)); left = run - 3; i += 3
            while left >= 3:
                r = min(6, left); out.append((16, r - 3, 2)); left -= r; i += r
            continue
        if style == "plain" or run < 3 or (style == "mixed" and rng.random() < 0.3):
            out.append((v, 0, 0)); i += 1; continue
        if v == 0:
            r = min(run, 138 if style != "short" else 10)
            if r >= 11: out.append((18, r - 11, 7))
            else: out.append((17, r - 3, 3))
            i += r
        else:
            if out and out[-1][0] == v or (i > 0 and seq[i - 1] == v):
                r = min(run, 6)
                if r >= 3: out.append((16, r - 3, 2)); i += r; continue
            out.append((v, 0, 0)); i += 1
    return out

def dyn_block(bw, rng, toks, final, maxdepth=15, rle="mixed", fault=None, single_dist=False, force_d_len=None):
    used_ll = sorted(set([256] + [t[1] for t in toks if t[0] == "lit"] + [257 + len_sym(t[1]) for t in toks if t[0] == "match"]))
    used_d = sorted(set(dist_sym(t[2]) for t in toks if t[0] == "match"))
    # pad with extra used symbols so that deep codes are reachable
    want = max(len(used_ll), 2)
    if maxdepth >= 13:
        extra = [s for s in range(286) if s not in used_ll and not (fault == "rep16_first" and s < 3)]
        rng.shuffle(extra); used_ll = sorted(used_ll + extra[:max(0, min(len(extra), maxdepth + 4 - len(used_ll)))])
    if len(used_ll) == 1: used_ll = sorted(set(used_ll + [0 if 0 not in used_ll else 1]))
    lens = random_complete_lengths(rng, len(used_ll), maxdepth, skew=0.7 if maxdepth >= 13 else 0.3)
    ll_len = [0] * 286
    for s, l in zip(used_ll, sorted(lens) if rng.random() < 0.3 else lens): ll_len[s] = l
    d_len = [0] * 30
    if not used_d:
        pass                                    # no distance codes: HDIST=1 with a single zero length
    elif len(used_d) == 1 and (single_dist or rng.random() < 0.5):
        d_len[used_d[0]] = 1                    # one distance code of one bit (RFC 1951 allows the incomplete set)
    else:
        ud = list(used_d)
        if len(ud) == 1: ud = sorted(set(ud + [(ud[0] + 1) % 30]))
        for s, l in zip(ud, random_complete_lengths(rng, len(ud), min(15, max(5, maxdepth)), skew=0.5)): d_len[s] = l
    undefined = None
    if fault == "use_undefined_dist":
        # a deep, complete distance code whose longest codes belong to symbols the data does not use
        extra = [x for x in range(30) if x not in used_d]; rng.shuffle(extra)
        ud = list(used_d) + extra[:max(2, 14 - len(used_d))]
        ls = sorted(random_complete_lengths(rng, len(ud), 15, skew=0.9))
        d_len = [0] * 30
        for sym, l in zip(list(used_d) + [x for x in ud if x not in used_d], ls): d_len[sym] = l
    if fault == "use_undefined_ll":
        real = set([256] + [t[1] for t in toks if t[0] == "lit"] + [257 + len_sym(t[1]) for t in toks if t[0] == "match"])
        order = [x for x in used_ll if x in real] + [x for x in used_ll if x not in real]
        ls = sorted(random_complete_lengths(rng, len(order), 15, skew=0.9))
        ll_len = [0] * 286
        for sym, l in zip(order, ls): ll_len[sym] = l
    if fault in ("use_undefined_dist", "use_undefined_ll"):
        # make the code set INCOMPLETE by dropping the last canonical code of maximal length (no other code changes), then use
        # exactly that unassigned code in the data: the stream is undecodable whatever a decoder thinks of incomplete sets
        lens_, base = (d_len, 0) if fault == "use_undefined_dist" else (ll_len, 0)
        mx = max(lens_)
        cand = [i for i in range(len(lens_)) if lens_[i] == mx and (fault == "use_undefined_dist" or i != 256)]
        used_syms = set(dist_sym(t[2]) for t in toks if t[0] == "match") if fault == "use_undefined_dist" else \
                    set([t[1] for t in toks if t[0] == "lit"] + [257 + len_sym(t[1]) for t in toks if t[0] == "match"])
        free = [i for i in cand if i not in used_syms]
        if free and mx >= 2:
            codes_full = canon(lens_)
            undefined = (max(codes_full[i] for i in cand), mx)      # dropping any code of maximal length leaves the last (all-ones) code unassigned
            lens_[free[-1]] = 0
    if fault and fault.startswith("extra_code:"):
        # over-subscribe a complete code set by ONE extra code of a chosen length (Kraft sum exceeds 1 by 2^-L)
        _, which, L = fault.split(":"); L = int(L)
        lens_ = d_len if which == "d" else ll_len
        if which == "d" and sum(1 for x in d_len if x) < 2:
            for sym, l in zip([0, 1, 2], [1, 2, 2]): d_len[sym] = l
        free = [i for i in range(len(lens_)) if lens_[i] == 0 and not (which == "ll" and i == 256)]
        if free: lens_[free[-1]] = L
    if fault == "oversubscribed_ll":
        s = rng.choice([x for x in used_ll]); ll_len[s] = max(1, ll_len[s] - 1)
    if fault == "no_eob": ll_len[256] = 0
    if fault == "incomplete_ll":
        s = max(used_ll, key=lambda x: ll_len[x]);
        if s != 256 and all(not (t[0] == "lit" and t[1] == s) for t in toks): ll_len[s] = 0
    if force_d_len is not None: d_len = list(force_d_len) + [0] * (30 - len(force_d_len))      # a distance code-length set given by the caller (may be incomplete)
    hlit = max(257, max(i for i in range(286) if ll_len[i]) + 1)
    hdist = max(1, max([i for i in range(30) if d_len[i]] + [0]) + 1)
    if fault == "hlit30": hlit = 287
    seq = ll_len[:hlit] + ([0] * (hlit - 286) if hlit > 286 else []) + d_len[:hdist]
    seq = (ll_len + [0, 0])[:hlit] + d_len[:hdist]
    rl = rle_lengths(rng, seq if fault != "rep_past_end" else seq[:-1], rle)
    if fault == "rep16_first":
        # "copy the previous length" as the very first code-length symbol: there is no previous length.  When the sequence starts with three
        # zeros the repeat REPLACES them (the count of lengths stays right, so this is the only thing wrong with the block); otherwise it is
        # put in front (one fault more: three lengths too many)
        rl = [(16, 0, 2)] + (rle_lengths(rng, seq[3:], rle) if seq[:3] == [0, 0, 0] else rl)
    if fault == "rep_past_end": rl = rl + [(18, 127, 7)]      # 138 zeros where only one length is still missing
    cl_used = sorted(set(x[0] for x in rl))
    if len(cl_used) == 1: cl_used = sorted(set(cl_used + [0 if cl_used[0] != 0 else 1]))
    cl_lens_v = random_complete_lengths(rng, len(cl_used), 7, skew=0.3)
    cl_len = [0] * 19
    for s, l in zip(cl_used, cl_lens_v): cl_len[s] = l
    if fault == "oversubscribed_cl": cl_len[cl_used[0]] = max(1, cl_len[cl_used[0]] - 1)
    cl_code = canon(cl_len)
    hclen = max(4, max(i for i in range(19) if cl_len[CL_ORDER[i]]) + 1)
    bw.bits(1 if final else 0, 1); bw.bits(2, 2)
    bw.bits(hlit - 257, 5); bw.bits(hdist - 1, 5); bw.bits(hclen - 4, 4)
    for i in range(hclen): bw.bits(cl_len[CL_ORDER[i]], 3)
    for s, ev, en in rl:
        bw.code(cl_code[s], cl_len[s]); bw.bits(ev, en)
    ll_code, d_code = canon(ll_len), canon(d_len)
    if fault == "no_eob":
        for t in toks[:3]:
            if t[0] == "lit": bw.code(ll_code[t[1]], ll_len[t[1]])
        return
    if undefined and fault == "use_undefined_dist":
        emit_tokens_no_eob(bw, toks, ll_len, ll_code, d_len, d_code)
        s_ = len_sym(5); bw.code(ll_code[257 + s_], ll_len[257 + s_]); bw.bits(5 - LEN_BASE[s_], LEN_EXTRA[s_]) if ll_len[257 + s_] else None
        bw.code(undefined[0], undefined[1]); bw.bits(0, 13)
        bw.code(ll_code[256], ll_len[256]); return
    if undefined and fault == "use_undefined_ll":
        emit_tokens_no_eob(bw, toks, ll_len, ll_code, d_len, d_code)
        bw.code(undefined[0], undefined[1]); bw.bits(0, 13)
        bw.code(ll_code[256], ll_len[256]); return
    emit_tokens(bw, toks, ll_len, ll_code, d_len, d_code)

def emit_tokens_no_eob(bw, toks, ll_len, ll_code, d_len, d_code):
    for t in toks:
        if t[0] == "lit":
            bw.code(ll_code[t[1]], ll_len[t[1]])
        else:
            _, ln, d = t
            s = len_sym(ln); bw.code(ll_code[257 + s], ll_len[257 + s]); bw.bits(ln - LEN_BASE[s], LEN_EXTRA[s])
            ds = dist_sym(d); bw.code(d_code[ds], d_len[ds]); bw.bits(d - DIST_BASE[ds], DIST_EXTRA[ds])

FIXED_LL = [8] * 144 + [9] * 112 + [7] * 24 + [8] * 8
FIXED_D = [5] * 32

def fixed_block(bw, toks, final, fault=None, rng=None):
    bw.bits(1 if final else 0, 1); bw.bits(1, 2)
    llc, dc = canon(FIXED_LL), canon(FIXED_D)
    if fault == "dist_sym_30":
        bw.code(llc[65], 8); bw.code(llc[257], 7); bw.code(dc[30], 5); bw.code(llc[256], 7); return
    if fault == "ll_sym_286":
        bw.code(llc[65], 8); bw.code(llc[286], 8); bw.code(dc[0], 5); bw.code(llc[256], 7); return
    emit_tokens(bw, toks, FIXED_LL, llc, FIXED_D, dc)

def stored_block(bw, data, final, fault=None):
    bw.bits(1 if final else 0, 1); bw.bits(0, 2); bw.align()
    n = len(data); nl = (~n) & 0xffff
    if fault == "len_nlen": nl ^= 0x0100
    bw.bytes_([n & 255, n >> 8, nl & 255, nl >> 8]); bw.bytes_(data)

def make_stream(rng, plan, fault=None, fault_block=None):
    """plan: list of block kinds ('stored'|'fixed'|'dynamic'|'dynamic15'|'empty_stored'|'empty_fixed'|'litonly'|'edges'|'bigdyn')"""
    bw = BitWriter(); total = 0
    fb = fault_block if fault_block is not None else len(plan) - 1
    for i, kind in enumerate(plan):
        final = i == len(plan) - 1
        f = fault if i == fb else None
        if f == "btype3":
            bw.bits(1 if final else 0, 1); bw.bits(3, 2); bw.bits(rng.randrange(256), 8); continue
        if kind == "stored":
            d = [rng.randrange(256) for _ in range(rng.choice([1, 5, 300, 65535]) if kind == "stored" else 0)]
            if len(d) == 65535 and rng.random() < 0.7: d = d[:rng.randrange(1, 2000)]
            stored_block(bw, d, final, f); total += len(d)
        elif kind == "empty_stored": stored_block(bw, [], final, f)
        elif kind == "empty_fixed": fixed_block(bw, [], final, f, rng)
        elif kind == "fixed":
            toks, total = random_tokens(rng, rng.randrange(1, 200), total, rng.choice(["mix", "edges", "lowent"])); fixed_block(bw, toks, final, f, rng)
        elif kind == "distfar":
            need = max(0, 32768 - total)
            if need: stored_block(bw, [rng.randrange(256) for _ in range(need)], False); total += need
            toks = [("match", 258, 32768), ("lit", 7), ("match", 3, 32768), ("match", 200, 1), ("match", 10, 32767)]
            total += 258 + 1 + 3 + 200 + 10
            dyn_block(bw, rng, toks, final, maxdepth=9, fault=f)
        else:
            style = {"litonly": "lits", "edges": "edges"}.get(kind, "mix")
            nt = rng.randrange(1, 120) if kind not in ("bigdyn", "middyn") else rng.randrange(1500, 6000) if kind == "bigdyn" else rng.randrange(900, 1300)
            toks, total = random_tokens(rng, nt, total, style)
            if f == "dist_too_far":
                toks = [("lit", 1)] + toks; total += 1
            depth = 15 if kind in ("dynamic15", "bigdyn") else rng.choice([7, 9, 10, 11, 12, 13])
            if kind == "middyn": style, depth = "lits", rng.choice([9, 12, 15])
            dyn_block(bw, rng, toks, final, maxdepth=depth, rle=rng.choice(["mixed", "plain", "short", "mixed", "zero16"]), fault=f, single_dist=(kind == "litonly"))
            if f == "dist_too_far":
                pass
    return bw.done()

def aligned_fixed_stream(rng, k8=5):
    """one final fixed block whose end-of-block code ends exactly on a byte boundary: 3 + 8*k8 + 9*6 + 7 bits"""
    bw = BitWriter()
    toks = [("lit", rng.randrange(0, 144)) for _ in range(k8)] + [("lit", rng.randrange(144, 256)) for _ in range(6)]
    rng.shuffle(toks)
    fixed_block(bw, toks, True)
    assert bw.n == 0
    return bw.done()

def maxlen_stream(rng, reps=8):
    """non-final dynamic block with very few symbols (short codes, so the decoder packs several symbols per lookup) made of
    literal, literal, maximal-length match (257 / 258, distance >= 16), followed by an empty final stored block"""
    bw = BitWriter()
    a, b = rng.randrange(256), rng.randrange(256)
    toks = [("lit", a if i % 3 else b) for i in range(24)]
    total = 24
    for i in range(reps):
        toks += [("lit", a), ("lit", b), ("match", [257, 258, 257, 256][i % 4], rng.choice([16, 17, 20, 24]))]
        total += 2 + toks[-1][1]
        if i % 3 == 2: toks += [("lit", a)]; total += 1
    dyn_block(bw, rng, toks, False, maxdepth=4 if rng.random() < 0.7 else 7, rle="mixed")
    stored_block(bw, [], True)
    return bw.done()

def too_far_stream(rng, nlit=3, mlen=3, over=1):
    """a single unambiguous look-back fault: a match whose distance exceeds the bytes produced so far (nlit literals, then a match of
    length mlen at distance nlit + over)"""
    bw = BitWriter()
    llc, dc = canon(FIXED_LL), canon(FIXED_D)
    bw.bits(1, 1); bw.bits(1, 2)
    for i in range(nlit): bw.code(llc[65 + i % 26], 8)
    s = len_sym(mlen); bw.code(llc[257 + s], FIXED_LL[257 + s]); bw.bits(mlen - LEN_BASE[s], LEN_EXTRA[s])
    d = nlit + over
    ds = dist_sym(d); bw.code(dc[ds], 5); bw.bits(d - DIST_BASE[ds], DIST_EXTRA[ds])     # distance reaching `over` bytes before the start of the output
    bw.code(llc[256], 7)
    return bw.done()

PLANS = [["fixed"], ["dynamic"], ["dynamic15"], ["stored"], ["empty_stored", "fixed"], ["empty_fixed", "dynamic"], ["stored", "dynamic", "fixed"],
         ["dynamic", "stored", "dynamic15"], ["litonly"], ["edges"], ["edges", "edges", "fixed"], ["distfar"], ["fixed", "empty_stored", "empty_stored", "stored"],
         ["dynamic15", "dynamic15"], ["litonly", "empty_fixed"], ["bigdyn"], ["stored", "distfar"], ["middyn"], ["middyn", "fixed"]]
for _L in (1, 2, 7, 9, 12, 14, 15):
    pass
FAULTS = {"btype3": "block", "len_nlen": "block", "oversubscribed_ll": "block", "oversubscribed_cl": "block", "no_eob": "block", "rep16_first": "block",
          "rep_past_end": "block", "dist_sym_30": "symbol", "ll_sym_286": "symbol", "dist_too_far": "lookback"}
FAULTS.update({"extra_code:%s:%d" % (w, L): "block" for w in ("d", "ll") for L in (1, 3, 8, 11, 13, 14, 15)})


def packed_stream(rng, total=70000, block=300, pins=(65535, 66999, 68001)):
    """many short non-final dynamic blocks over tiny alphabets (2-4 bit codes, so that decoders with multi-symbol lookup entries pack
    'literal(s) + length' and 'literal + end-of-block' into one entry), literals alternating with short matches at near and far distances;
    at every pinned output position a literal is followed directly by a match with a far distance (many extra bits);
    returns (stream, output positions at which a block ends)"""
    bw = BitWriter(); have = 0; ends = []
    while have < total:
        lits = rng.sample([97, 98, 99, 100, 101, 102], rng.choice([1, 2, 3, 4]))
        toks = []; n = 0
        while n < block:
            pos = have + n
            if pos in pins:
                toks.append(("lit", rng.choice(lits))); toks.append(("match", 3, min(pos + 1, rng.choice([1500, 3000, 9000])))); n += 4; continue
            ln = rng.choice([3, 3, 4, 5, 6])
            if pos == 0 or rng.random() < 0.55 or any(pos < q < pos + ln for q in pins):
                toks.append(("lit", rng.choice(lits))); n += 1
            else:
                d = min(rng.choice([1, 2, 3, 4, 1500, 3000, 9000, 20000]), pos)
                toks.append(("match", ln, d)); n += ln
        if have + n in pins or rng.random() < 0.5 or any(have + n < q < have + n + 3 for q in pins): toks.append(("lit", rng.choice(lits))); n += 1      # block ends with a literal (then the end-of-block code)
        else: toks.append(("match", 3, min(have + n, rng.choice([1, 1500])))); n += 3
        nsym = len(set([256] + [t[1] for t in toks if t[0] == "lit"] + [257 + len_sym(t[1]) for t in toks if t[0] == "match"]))
        depth = 2 if nsym <= 4 else 3 if nsym <= 8 else 4
        dyn_block(bw, rng, toks, False, maxdepth=depth, rle=rng.choice(["mixed", "plain", "short"]))
        have += n; ends.append(have)
    fixed_block(bw, [], True, None, rng)
    return bw.done(), ends


def incomplete_dist_stream(rng, d_lens, n_lits=40, final_first=True):
    """one (final) dynamic block of literals only whose distance alphabet has the given, typically INCOMPLETE, set of code lengths
    (no distance code is used by the data), followed by nothing; a decoder either refuses the code set or decodes the literals and finishes"""
    bw = BitWriter()
    toks = [("lit", rng.choice([104, 101, 108, 111, 32])) for _ in range(n_lits)]
    dyn_block(bw, rng, toks, True, maxdepth=7, rle="mixed", force_d_len=d_lens)
    return bw.done()

def deep_incomplete_dist_sets(rng, n):
    """incomplete distance code-length sets with many codes longer than 10 bits spread over many 10-bit prefixes (the shape that needs the
    most second-level lookup entries in a two-level decoding table); Kraft sum strictly below 1"""
    out = [[12, 12, 15, 13, 11, 12, 11, 12, 12, 11, 15, 13, 12, 13, 7, 15, 11, 12, 12, 13, 13, 11, 12, 11, 13, 11, 14, 13, 13, 13]]
    while len(out) < n:
        ls = [rng.choice([11, 11, 12, 12, 12, 13, 13, 13, 14, 14, 15, 15, 7, 9]) for _ in range(30)]
        if sum(1 << (15 - l) for l in ls) < (1 << 15): out.append(ls)
    return out

# ---- streams whose dynamic header is ALMOST a given one (e.g. ISA-L's own default header): producer-side only ----
def _bits_of(data):
    return [(data[i >> 3] >> (i & 7)) & 1 for i in range(len(data) * 8)]

def parse_dyn_header(data):
    """Parse the dynamic block header at bit 0 of `data` (a block made by some encoder; this only locates fields so that a
    producer can modify them). Returns None if the first block is not dynamic."""
    b = _bits_of(data[:400]); p = [0]
    def rd(n):
        v = sum(b[p[0] + i] << i for i in range(n)); p[0] += n; return v
    rd(1)
    if rd(2) != 2: return None
    hlit, hdist, hclen = rd(5) + 257, rd(5) + 1, rd(4) + 4
    cl_len = [0] * 19
    for i in range(hclen): cl_len[CL_ORDER[i]] = rd(3)
    codes = canon(cl_len); dec = {(cl_len[s], codes[s]): s for s in range(19) if cl_len[s]}
    lens, entries = [], []
    while len(lens) < hlit + hdist:
        start = p[0]; c = 0; n = 0
        while True:
            c = (c << 1) | b[p[0]]; p[0] += 1; n += 1
            if (n, c) in dec: s = dec[(n, c)]; break
            if n > 7: return None
        if s < 16: lens.append(s); entries.append({"sym": s, "pos": start, "n": n, "idx": len(lens) - 1})
        else:
            nb, base = {16: (2, 3), 17: (3, 3), 18: (7, 11)}[s]
            r = rd(nb) + base; v = lens[-1] if s == 16 else 0
            entries.append({"sym": s, "pos": start, "n": n, "idx": None}); lens += [v] * r
    return {"hlit": hlit, "hdist": hdist, "cl_len": cl_len, "lens": lens[:hlit + hdist], "entries": entries, "end": p[0], "bits": b}

def near_header_streams(rng, data, max_variants=6):
    """Streams whose only dynamic block has the header found in `data` with ONE pair of neighbouring code lengths exchanged (the code stays
    complete; where the two code-length symbols are equally long the header keeps its length and differs in a few bits only), followed by
    data that uses the two symbols concerned.  Pairs are taken from the start, the middle and the very end of the header."""
    h = parse_dyn_header(data)
    if h is None: return []
    ents = h["entries"]
    plain = [e for k, e in enumerate(ents) if e["idx"] is not None and not (k + 1 < len(ents) and ents[k + 1]["sym"] == 16)]      # (a length that a following "repeat previous" copies is left alone)
    pairs = [(a, c) for a, c in zip(plain, plain[1:]) if c["idx"] == a["idx"] + 1 and a["sym"] != c["sym"] and a["n"] == c["n"] and a["sym"] > 0 and c["sym"] > 0 and a["idx"] != 256 and c["idx"] != 256]
    if not pairs: return []
    pick = [pairs[-1], pairs[0], pairs[len(pairs) // 2]] + [p_ for p_ in pairs if p_[0]["idx"] >= h["hlit"]][:max_variants - 3]
    out = []
    for a, c in pick[:max_variants]:
        bits = list(h["bits"][:h["end"]])
        ca, cc = bits[a["pos"]:a["pos"] + a["n"]], bits[c["pos"]:c["pos"] + c["n"]]
        bits[a["pos"]:a["pos"] + a["n"]], bits[c["pos"]:c["pos"] + c["n"]] = cc, ca
        lens = list(h["lens"]); lens[a["idx"]], lens[c["idx"]] = lens[c["idx"]], lens[a["idx"]]
        ll_len = lens[:h["hlit"]] + [0] * (286 - h["hlit"]); d_len = lens[h["hlit"]:] + [0] * (30 - h["hdist"])
        ll_code, d_code = canon(ll_len), canon(d_len)
        lits = [s for s in range(256) if ll_len[s]]
        toks, total = [], 0
        def lit(x=None):
            nonlocal total
            toks.append(("lit", x if x is not None else rng.choice(lits))); total += 1
        if a["idx"] < h["hlit"]:                       # literal / length symbols exchanged
            for _ in range(60): lit()
            for s in (a["idx"], c["idx"]):
                for _ in range(5):
                    if s < 256: lit(s)
                    elif s > 256 and ll_len[s] and any(d_len):
                        ds = [i for i in range(30) if d_len[i] and DIST_BASE[i] <= total][:1]
                        if ds: toks.append(("match", LEN_BASE[s - 257], DIST_BASE[ds[0]])); total += LEN_BASE[s - 257]
                    lit()
        else:                                          # distance symbols exchanged: matches at the distances of both symbols
            need = DIST_BASE[max(a["idx"], c["idx"]) - h["hlit"]] + (1 << DIST_EXTRA[max(a["idx"], c["idx"]) - h["hlit"]])
            for _ in range(need + 50): lit()
            lsyms = [s for s in range(257, 286) if ll_len[s]]
            for rep in range(6):
                for e in (a, c):
                    ds = e["idx"] - h["hlit"]; d = DIST_BASE[ds] + rng.randrange(1 << DIST_EXTRA[ds])
                    ln = LEN_BASE[rng.choice(lsyms) - 257]
                    toks.append(("match", ln, min(d, total))); total += ln; lit()
        bw = BitWriter()
        bw.bits(1, 1)
        for x in bits[1:]: bw.bits(x, 1)
        emit_tokens(bw, toks, ll_len, ll_code, d_len, d_code)
        out.append(("idx%d<->%d" % (a["idx"], c["idx"]), bw.done()))
    return out
