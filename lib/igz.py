"""igzip scenario machinery shared by C01 C02 C05 C06 C07 C10 C11 C14 C15 C17 C18:
build scenarios, run the harness (optionally under a simulated CPU level), merge the recorded trace
with the scenario inputs, let TLC judge it (sharded), map rule violations to verdict keys."""
import os, json, random, concurrent.futures as cf
from verif import *

API = {"deflate": 0, "deflate_stateless": 1, "inflate": 2, "inflate_stateless": 3, "deflate_stateless_multi": 4}
WRAPS = {"raw": 0, "gzip": 1, "gzip_nohdr": 2, "zlib": 3, "zlib_nohdr": 4}

# ------------------------------------------------------------------ corpus
def corpus(rng, cls, n):
    if cls == "empty": return []
    if cls == "random": return [rng.randrange(256) for _ in range(n)]
    if cls == "zeros": return [0] * n
    if cls == "ff": return [255] * n
    if cls == "text":
        words = [b"the", b"quick", b"brown", b"fox", b"jumps", b"over", b"lazy", b"dog", b"isa-l", b"deflate", b"stream", b"0123456789", b"\n"]
        out = bytearray()
        while len(out) < n:
            out += rng.choice(words) + b" "
        return list(out[:n])
    if cls == "periodic":            # period p: long-range repeats at a fixed distance
        p = rng.choice([3, 17, 255, 256, 257, 511, 1000])
        base = [rng.randrange(256) for _ in range(p)]
        return [base[i % p] for i in range(n)]
    if cls == "runs":
        out = []
        while len(out) < n:
            out += [rng.randrange(256)] * rng.choice([1, 2, 3, 4, 5, 30, 258, 259, 300, 700])
        return out[:n]
    if cls == "records":             # '#'+3 letters+hex: record-structured data
        out = bytearray()
        i = 0
        while len(out) < n:
            out += b"#%c%c%c%012x" % (65 + i % 26, 65 + (i // 26) % 26, 65 + (i // 676) % 26, rng.randrange(1 << 24) * 7919)
            i += 1
        return list(out[:n])
    if cls == "farcopy":             # literals, short matches and back-to-back long matches copied from far (>= 16 KiB) back:
        base = min(n // 3, 40000)    # many symbols whose code + extra bits are long (up to 13 distance extra bits)
        out = [rng.choice(b"etaoinshrdlu ETAOIN0123456789,.;\n") if rng.random() < 0.85 else rng.randrange(256) for _ in range(max(base, 20000))]
        while len(out) < n:
            r = rng.random()
            if r < 0.25: out += [rng.randrange(256) for _ in range(rng.randrange(1, 4))]
            else:
                ln = rng.choice([3, 4, 5, 8, 11, 13, 19, 35, 67, 131, 258, rng.randrange(3, 259)])
                far = rng.randrange(16385, min(len(out), 32768)) if r < 0.8 or len(out) < 200 else rng.randrange(1, 200)
                src = len(out) - far
                out += out[src:src + ln] if far >= ln else (out[src:] * (ln // far + 1))[:ln]
        return out[:n]
    if cls == "symmix":              # random literals from an alphabet of random size, short matches at distances spread over all
        nlit = 16 + rng.randrange(236); p_long = 4 + rng.randrange(60); p_lit = 2 + rng.randrange(6)   # distance codes, runs of long far matches
        out = []
        def cp(ln, dist):
            for _ in range(ln): out.append(out[len(out) - dist])
        while len(out) < n:
            if len(out) <= 33000 or rng.randrange(p_lit) == 0:
                out += [rng.randrange(nlit) for _ in range(1 + rng.randrange(6))]
            elif rng.randrange(p_long) == 0:
                for _ in range(2 + rng.randrange(3)): cp(131 + rng.randrange(127), 16385 + rng.randrange(16384))
            else:
                db = rng.randrange(14); cp(3 + rng.randrange(6), (1 << db) + rng.randrange(1 << db))
        return out[:n]
    if cls == "lowent":
        return [rng.choice([65, 66, 67, 68]) for _ in range(n)]
    raise ValueError(cls)

def far_repeat(rng, n, dist, low_entropy=False):
    """data that repeats with period `dist`. Incompressible within a period by default (blocks then tend to be stored);
    with low_entropy the period is drawn from a small skewed alphabet, so blocks are Huffman coded and any long-range
    match the compressor takes really appears in the stream"""
    seg = [rng.randrange(256) for _ in range(min(dist, n))] if not low_entropy else \
          [rng.choice(b"aaaabbbccdeefg hijkl") for _ in range(min(dist, n))]
    out = []
    while len(out) < n:
        out += seg + [rng.randrange(256) for _ in range(max(0, dist - len(seg)))]
    return out[:n]

# ------------------------------------------------------------------ scenarios
def scenario(scn, api, inp, level=0, wrap=0, hist_bits=0, table=0, lbuf=3, mem=0, prefill=0, dictmode=0, dct=None,
             calls=None, tail_ai=1 << 20, tail_ao=1 << 20, cap=100000, meta=None):
    return {"scn": scn, "api": API[api] if isinstance(api, str) else api, "level": level, "wrap": WRAPS[wrap] if isinstance(wrap, str) else wrap,
            "hist_bits": hist_bits, "table": table, "lbuf": lbuf, "mem": mem, "prefill": prefill, "dictmode": dictmode, "dict": dct or [],
            "inp": inp, "calls": calls or [], "tail_ai": tail_ai, "tail_ao": tail_ao, "cap": cap, "meta": meta or {}}

def write_scn_file(path, scns):
    with open(path, "w") as f:
        f.write("%d\n" % len(scns))
        for s in scns:
            f.write("%d %d %d %d %d %d %d %d %d %d %d %d %d %d %d %d\n" % (s["scn"], s["api"], s["level"], s["wrap"], s["hist_bits"], s["table"], s["lbuf"],
                    s["mem"], s["prefill"], s["dictmode"], len(s["dict"]), len(s["inp"]), -int(s["meta"]["adaptive"]) if s["meta"].get("adaptive") else len(s["calls"]), s["tail_ai"], s["tail_ao"], s["cap"]))
            f.write(" ".join(map(str, s["dict"])) + "\n")
            f.write(" ".join(map(str, s["inp"])) + "\n")
            f.write(" ".join("%d %d %d %d" % tuple(c) for c in s["calls"]) + "\n")

def harness(cpu=None):
    if cpu is None:
        return build_harness("h_igzip", ["h_igzip.c"]), {}
    from props import c16
    return c16.build_shimmed("h_igzip_cpu", "h_igzip.c"), {"VERIF_CPU": cpu}

def run_harness(scns, wd, tag, cpu=None, timeout=1800, binary=None):
    hb, env = (binary, {}) if binary else harness(cpu)
    sf, tf = os.path.join(wd, "scn-%s.txt" % tag), os.path.join(wd, "trace-%s.ndjson" % tag)
    write_scn_file(sf, scns)
    sh([hb, sf, tf, str(seed() % 1000003 + 17)], timeout=timeout, env=env)
    return tf

def merge(scns, tracefile):
    """one record per scenario for TLC: parameters + input + the recorded calls"""
    by = {s["scn"]: dict(s, calls_sched=s["calls"], calls=[], end={"why": "missing", "state": "?"}, setdict=[]) for s in scns}
    summary = {}
    with open(tracefile) as f:
        for line in f:
            e = json.loads(line)
            k = e.get("e")
            if k == "Call": by[e["scn"]]["calls"].append({x: e[x] for x in e if x not in ("e", "scn")})
            elif k == "End": by[e["scn"]]["end"] = {x: e[x] for x in e if x not in ("e", "scn")}
            elif k == "Fault": by[e["scn"]]["fault"] = e
            elif k == "SetDict": by[e["scn"]]["setdict"].append(e)
            elif k == "Summary": summary = e
    recs = []
    for s in scns:
        r = by[s["scn"]]
        if s["meta"].get("adaptive"):     # the schedule the harness chose becomes the scenario's explicit schedule (replay files are self-contained)
            s["calls"] = [[c["ai"], c["ao"], c.get("flush") or 0, c.get("eos") or 0] for c in r["calls"] + ([r["fault"]] if "fault" in r and "ao" in r["fault"] else [])]
            s["tail_ai"], s["tail_ao"] = 0, 1 << 16
            s["meta"] = dict(s["meta"], adaptive=0, was_adaptive=1)
        recs.append({"scn": r["scn"], "api": r["api"], "level": r["level"], "wrap": r["wrap"], "hist_bits": r["hist_bits"], "lbuf": r["lbuf"],
                     "dict": (r["dict"][-32768:] if r["dictmode"] in (1, 2, 6, 7) else []), "inp": r["inp"], "calls": r["calls"], "end": r["end"],
                     "dict_points": [[e["to"], e["ti"]] for e in r["setdict"] if not e.get("wrong_state") and "to" in e and e["ret"] == 0 and e.get("ret2", 0) == 0],
                     "dict_at_start": 1 if r["dictmode"] in (1, 2) else 0,
                     "wrong_state_accepted": [e["seq"] + 1 for e in r["setdict"] if e.get("wrong_state") and (e["ret"] == 0 or e.get("ret2", 1) == 0)],
                     "expect_ret": r["meta"].get("expect_ret", 0), "complete_supply": r["meta"].get("complete_supply", True), "salt": r["meta"].get("salt", 0),
                     "nodecode": 1 if r["meta"].get("nodecode") else 0})      # nodecode: only the per-call rules and faults are judged (memory-safety sweeps of C05)
        if recs[-1]["nodecode"]:      # ... so the bytes themselves are not handed to TLC (its JSON reader is the bottleneck for thousands of small scenarios)
            recs[-1]["inp"] = []
            recs[-1]["calls"] = [dict(c, out=[], outlen=len(c.get("out", []))) for c in recs[-1]["calls"]]
    return recs, summary, by

def group_inflate(recs):
    """group inflate scenario records by (mode, stream, dict) so TLC decodes each stream once"""
    groups = {}
    for r in recs:
        k = (r["wrap"], bytes(r["inp"]), bytes(r["dict"]), r.get("salt", 0))     # salt: spread the runs of one large stream over several TLC shards
        g = groups.setdefault(k, {"scn": r["scn"], "wrap": r["wrap"], "inp": r["inp"], "dict": r["dict"], "runs": [], "calls": []})
        g["runs"].append({"scn": r["scn"], "api": r["api"], "calls": r["calls"], "end": r["end"], "expect_ret": r["expect_ret"], "complete_supply": r["complete_supply"], "hist_bits": r["hist_bits"]})
        g["calls"] += [0] * len(r["calls"])
    return list(groups.values())

def deflate_stream_table():
    """DeflateStreamOps!CallEnds tabulated by TLC (spec/gen/GenDeflateStream.tla); cached by the hash of the spec"""
    import hashlib, glob
    h = hashlib.sha256(open(os.path.join(SPEC, "DeflateStreamOps.tla"), "rb").read() + open(os.path.join(SPEC, "gen/GenDeflateStream.tla"), "rb").read()).hexdigest()[:16]
    cache = os.path.join(BUILD, "deflatestream-table-%s.ndjson" % h)
    if not os.path.exists(cache):
        os.makedirs(BUILD, exist_ok=True)
        for old in glob.glob(os.path.join(BUILD, "deflatestream-table-*")): os.remove(old)
        tmp = cache + ".tmp%d" % os.getpid()
        tlc("gen/GenDeflateStream", env={"VERIF_OUT": tmp}, timeout=1200, xmx="4g")
        os.rename(tmp, cache)
    return cache

def model_coverage(res):
    """which transitions of the tabulated DeflateStreamOps relation the recorded calls exercised (informational):
    reachable = closure of the table from (NEW_HDR, not staged) under every environment choice; observed = tuples TraceDeflate reported"""
    tab = read_ndjson(deflate_stream_table())
    rel = {}
    for r in tab:
        rel[(r["b0"], r["t0"], r["room"], r["inp"], r["flush"], r["eos"], r["lvl0"])] = [tuple(e) for e in r["ends"]]
    reach_pairs = set()
    for lvl0 in (0, 1):
        seen, todo = set(), [("NEW_HDR", 0, 0)]          # (state, staged, eos already announced)
        while todo:
            b, t, e0 = todo.pop()
            if (b, t, e0) in seen: continue
            seen.add((b, t, e0))
            for room in (0, 1, 2):
                for inp in (0, 1):
                    for fl in (0, 1, 2):
                        for e in ((1,) if e0 else (0, 1)):
                            for (b1, t1) in rel.get((b, t, room, inp, fl, e, lvl0), []):
                                if (b1, t1) == (b, t) and False: continue
                                reach_pairs.add((b, t, room, inp, fl, e, lvl0, b1, t1)); todo.append((b1, t1, e))
    obs = set()
    for r in res.values():
        for c in r.get("cov", []): obs.add(tuple(c))
    inmodel = obs & reach_pairs
    return {"relation_pairs_reachable": len(reach_pairs), "observed_pairs": len(obs), "observed_in_reachable": len(inmodel),
            "observed_entry_states": len({(c[0], c[1]) for c in obs}), "reachable_entry_states": len({(c[0], c[1]) for c in reach_pairs}),
            "observed_state_pairs": len({(c[0], c[1], c[7], c[8]) for c in obs}), "reachable_state_pairs": len({(c[0], c[1], c[7], c[8]) for c in reach_pairs}),
            "_obs": obs, "_reach": reach_pairs}

def inflate_stream_table():
    """InflateStreamOps!CallResults tabulated by TLC (spec/gen/GenInflateStream.tla); cached by the hash of the spec"""
    import hashlib, glob
    h = hashlib.sha256(open(os.path.join(SPEC, "InflateStreamOps.tla"), "rb").read() + open(os.path.join(SPEC, "gen/GenInflateStream.tla"), "rb").read()).hexdigest()[:16]
    cache = os.path.join(BUILD, "inflatestream-table-%s.ndjson" % h)
    if not os.path.exists(cache):
        os.makedirs(BUILD, exist_ok=True)
        for old in glob.glob(os.path.join(BUILD, "inflatestream-table-*")): os.remove(old)
        tmp = cache + ".tmp%d" % os.getpid()
        tlc("gen/GenInflateStream", env={"VERIF_OUT": tmp}, timeout=1200, xmx="4g")
        os.rename(tmp, cache)
    return cache

def judge(module, recs, wd, tag, shards=8, timeout=3000, weight=None):
    """run a trace-validation module over the scenario records, sharded over several TLC JVMs (balanced by input size)"""
    dstab = deflate_stream_table() if module.endswith("TraceDeflate") else None
    istab = inflate_stream_table() if module.endswith("TraceInflate") else None
    shards = max(1, min(shards, len(recs)))
    w = weight or (lambda r: len(r.get("inp", [])) + 50 * len(r.get("calls", [])) + 200)
    order = sorted(range(len(recs)), key=lambda i: -w(recs[i]))
    parts, load = [[] for _ in range(shards)], [0] * shards
    for i in order:
        j = load.index(min(load)); parts[j].append(recs[i]); load[j] += w(recs[i])
    def one(i):
        a, b = os.path.join(wd, "tv-%s-%d.in" % (tag, i)), os.path.join(wd, "tv-%s-%d.out" % (tag, i))
        write_ndjson(a, parts[i])
        env = {"VERIF_IN": a, "VERIF_OUT": b}
        if module.endswith("TraceDeflate"): env["VERIF_DSTAB"] = dstab
        if module.endswith("TraceInflate"): env["VERIF_ISTAB"] = istab
        r = tlc(module, wd=wd, env=env, timeout=timeout, xmx="3g", gc="serial")
        return read_ndjson(b), r["wall"]
    with cf.ThreadPoolExecutor(shards) as ex:
        outs = list(ex.map(one, range(shards)))
    res = {}
    for o, _ in outs:
        for x in o: res[x["scn"]] = x
    expect = sum(len(r["runs"]) for r in recs) if recs and "runs" in recs[0] else len(recs)
    if len(res) != expect: raise Infra("%s judged %d of %d scenarios" % (module, len(res), expect))
    return res, sum(wl for _, wl in outs)

def drift_count(res):
    """calls whose (entry state -> return state) pair is not in the tabulated DeflateStreamOps relation (rule M1, informational)"""
    return sum(len(r.get("drift", [])) for r in res.values())

def describe(s):
    inv = {v: k for k, v in API.items()}
    return {"scn": s["scn"], "api": inv.get(s["api"], s["api"]), "level": s["level"], "wrap": s["wrap"], "hist_bits": s["hist_bits"], "table": s["table"],
            "lbuf": s["lbuf"], "mem": s["mem"], "prefill": s["prefill"], "dictmode": s["dictmode"], "dict_len": len(s["dict"]), "input_len": len(s["inp"]),
            "input_first16": s["inp"][:16], "calls": s["calls"][:12], "n_sched_calls": len(s["calls"]), "tail": [s["tail_ai"], s["tail_ao"]], "meta": s["meta"]}

def replay_record(s, cpu=None):
    return {"scenario": dict(s), "cpu": cpu, "seed": seed(), "how": "bin/check <id> --replay <this file> re-runs exactly this scenario"}

def report(v, scns, res, by, prefix="", cpu=None, rule_filter=None):
    """turn rule violations into verdict entries; key = rule id + shape of the scenario (not the bytes)"""
    byid = {s["scn"]: s for s in scns}
    n = 0
    for scn, r in res.items():
        for seq, rule in r["viol"]:
            if rule_filter and not rule_filter(rule): continue
            s = byid[scn]
            calls = by[scn]["calls"]
            c = calls[seq - 1] if 0 < seq <= len(calls) else {}
            shape = shape_of(s, by[scn], seq, rule)
            v.violation("%s%s%s" % (prefix, rule, shape),
                        "%s in scenario %d call %d (api=%d level=%d wrap=%d hist_bits=%d table=%d lbuf=%d mem=%d%s): %s" %
                        (rule, scn, seq, s["api"], s["level"], s["wrap"], s["hist_bits"], s["table"], s["lbuf"], s["mem"], (" cpu=" + cpu) if cpu else "",
                         json.dumps({k: c.get(k) for k in ("flush", "eos", "ai", "ao", "ret", "c", "p", "st0", "st")})),
                        replay_record(s, cpu))
            n += 1
    return n

def shape_of(s, rec, seq, rule):
    """the part of a finding's identity that is about the SHAPE of the history (used for known-finding keys)"""
    calls = rec["calls"]
    if rule.startswith("D6-flush-complete-but-not-all-input-decodable"):
        # known shape: the call was entered with a pending flush marker / staged output and supplied new input
        c = calls[seq - 1]
        if c.get("st0", "").startswith("TMP_") or c.get("st0") in ("SYNC_FLUSH", "FLUSH_WRITE_BUFFER"):
            if c.get("ai", 0) > 0: return ":entered-with-pending-marker-and-new-input"
        return ":other"
    if s["api"] == 2 and rule.split("-")[0] in ("I2", "I3", "I5"):
        # known shape: streaming isal_inflate, wrapper header with resume state (gzip FHCRC or >= 2 optional fields; zlib FDICT),
        # and the header did not arrive in one piece (a call ended before any output was produced and before the header end)
        inp = s["inp"]
        multi = False
        if s["wrap"] == 1 and len(inp) > 3:
            flg = inp[3]; multi = bool(flg & 2) or bin(flg & 0x1c).count("1") >= 2
        if s["wrap"] == 3 and len(inp) > 1:
            multi = bool(inp[1] & 0x20)
        header_calls = 0
        for c in calls:
            if c.get("p", 0) > 0 or c.get("ret", 0) != 0: break
            if c.get("c", 0) > 0: header_calls += 1
        if multi and (header_calls >= 1 and len(calls) >= 2 and calls[0].get("c", 0) < 400 and calls[0].get("p", 0) == 0 and calls[0].get("ret", 0) == 0):
            return ":wrapper-header-with-resume-state-split-across-calls"
    return ""

def key_coverage(mc):
    """(entry state, staged, room, input, flush, eos, level0) keys: reachable in the model vs entered by a recorded call"""
    rk = {t[:7] for t in mc["_reach"]}; ok = {t[:7] for t in mc["_obs"]}
    return {"reachable_keys": len(rk), "observed_keys": len(ok & rk)}

def inflate_conformance(res):
    """rule M2 summary for evidence: recorded isal_inflate calls not in the tabulated InflateStreamOps relation (drift), and how much of the relation was exercised"""
    tab = read_ndjson(inflate_stream_table())
    pairs = sum(len(r["ends"]) for r in tab)
    obs = set()
    for r in res.values():
        for c in r.get("cov", []): obs.add(tuple(c))
    return {"model": "spec/InflateStreamOps.tla (tabulated by spec/gen/GenInflateStream.tla)", "calls_not_in_model": drift_count(res),
            "relation_keys": len(tab), "relation_pairs": pairs, "observed_pairs": len(obs), "observed_keys": len({c[:7] for c in obs}),
            "observed_entry_states": len({c[:4] for c in obs})}
