"""ISA classifier for C16: from `objdump -d -M intel --insn-width=16` of a binary built from the working
tree, compute for every function symbol the set of instruction-set extensions its instructions (and the
functions it directly calls/jumps to) require.  Vocabulary = the names used by Dispatch!Avail.
Unknown SIMD mnemonics are reported as unclassified (coverage gap), never as violations."""
import re, subprocess

LEGACY_PREFIX = {0x66, 0xf2, 0xf3, 0x2e, 0x36, 0x3e, 0x26, 0x64, 0x65, 0x67, 0xf0}

SSE3 = {"lddqu", "movddup", "movshdup", "movsldup", "haddps", "haddpd", "hsubps", "hsubpd", "addsubps", "addsubpd", "fisttp"}
SSSE3 = {"pshufb", "phaddw", "phaddd", "phaddsw", "phsubw", "phsubd", "phsubsw", "pmaddubsw", "pmulhrsw", "psignb", "psignw", "psignd",
         "pabsb", "pabsw", "pabsd", "palignr"}
SSE41 = {"ptest", "pextrb", "pextrd", "pextrq", "pinsrb", "pinsrd", "pinsrq", "pblendvb", "pblendw", "blendps", "blendpd", "blendvps", "blendvpd",
         "pmulld", "pmuldq", "movntdqa", "pcmpeqq", "pminsb", "pminuw", "pminud", "pminsd", "pmaxsb", "pmaxuw", "pmaxud", "pmaxsd", "packusdw",
         "roundps", "roundpd", "roundss", "roundsd", "dpps", "dppd", "insertps", "extractps", "mpsadbw", "phminposuw"}
SSE42 = {"crc32", "pcmpgtq", "pcmpestri", "pcmpestrm", "pcmpistri", "pcmpistrm"}
BMI1 = {"andn", "bextr", "blsi", "blsmsk", "blsr"}
BMI2 = {"bzhi", "mulx", "pdep", "pext", "rorx", "sarx", "shlx", "shrx"}
AVX2_VEX = {"vperm2i128", "vinserti128", "vextracti128", "vpermq", "vpermd", "vpermps", "vpermpd", "vpblendd", "vbroadcasti128",
            "vpmaskmovd", "vpmaskmovq", "vpsllvd", "vpsllvq", "vpsrlvd", "vpsrlvq", "vpsravd", "vpgatherdd", "vpgatherdq", "vpgatherqd", "vpgatherqq",
            "vgatherdps", "vgatherdpd", "vgatherqps", "vgatherqpd", "vpbroadcastb", "vpbroadcastw", "vpbroadcastd", "vpbroadcastq"}
AVX_INT_XMM_OK = True  # VEX.128 integer ops are AVX; VEX.256 integer ops are AVX2

EVEX_BW = re.compile(r"^(vmovdqu8|vmovdqu16|vpcmp[a-z]*[bw]|vpcmpu?[bw]|vpblendm[bw]|vptestn?m[bw]|vpbroadcast[bw]|vpermw|vpermi2w|vpermt2w|vpshufb|vpsadbw|"
                     r"vpadd[bw]|vpaddu?s[bw]|vpsub[bw]|vpsubu?s[bw]|vpunpck[lh](bw|wd)|vpmovm2[bw]|vpmov[bw]2m|vpslldq|vpsrldq|vpalignr|vpavg[bw]|"
                     r"vpmax[su][bw]|vpmin[su][bw]|vpmullw|vpmulh[u]?w|vpmulhrsw|vpmaddubsw|vpmaddwd|vpack[su]s(wb|dw)|vpabs[bw]|vps[lr]lw|vpsraw|vps[lr]lvw|vpsravw|"
                     r"vpmovwb|vpmovs?wb|vpmovuswb|vpmov[sz]xbw|vpshufhw|vpshuflw|vdbpsadbw|vpextr[bw]|vpinsr[bw]|vpmovzxbw|vpmovsxbw)$")
EVEX_DQ = re.compile(r"^(v(extract|insert)[fi]64x2|v(extract|insert)[fi]32x8|vbroadcast[fi]32x[28]|vbroadcast[fi]64x2|vpmullq|vpmovm2[dq]|vpmov[dq]2m|"
                     r"vcvt[a-z0-9]*qq[a-z0-9]*|vcvtt?p[sd]2u?qq|vrange[ps][sd]|vreduce[ps][sd]|vfpclass[ps][sd]|vandn?p[sd]|vorp[sd]|vxorp[sd]|vpextr[dq]|vpinsr[dq])$")
EVEX_CD = re.compile(r"^(vplzcnt[dq]|vpconflict[dq]|vpbroadcastm(b2q|w2d))$")
EVEX_VBMI2 = re.compile(r"^(vpcompress[bw]|vpexpand[bw]|vpsh[lr]dv?[wdq])$")
EVEX_VBMI = re.compile(r"^(vpermb|vpermi2b|vpermt2b|vpmultishiftqb)$")
EVEX_VPOPCNT = re.compile(r"^vpopcnt[dq]$")
EVEX_BITALG = re.compile(r"^(vpopcnt[bw]|vpshufbitqmb)$")
EVEX_VNNI = re.compile(r"^vpdp(bu|ws)sds?$")
OPMASK = re.compile(r"^k(mov|and|andn|or|xor|xnor|not|ortest|test|shiftl|shiftr|add|unpck)(b|w|d|q|bw|wd|dq)$")

LINE = re.compile(r"^\s*([0-9a-f]+):\t((?:[0-9a-f]{2} )+)\s*\t?(.*)$")
SYM = re.compile(r"^([0-9a-f]+) <([^>]+)>:$")
TARGET = re.compile(r"\b([0-9a-f]+) <([^>+]+)(\+0x[0-9a-f]+)?>")

def insn_req(mn, ops, raw):
    """returns (set of requirement names, unclassified?)"""
    i = 0
    while i < len(raw) and raw[i] in LEGACY_PREFIX: i += 1
    enc = "legacy"
    if i < len(raw):
        if raw[i] == 0x62: enc = "evex"
        elif raw[i] in (0xc4, 0xc5): enc = "vex"
    width = "zmm" if "zmm" in ops else "ymm" if "ymm" in ops else "xmm" if "xmm" in ops else None
    req = set()
    if OPMASK.match(mn):
        sfx = OPMASK.match(mn).group(2)
        if mn.startswith("ktest") or mn.startswith("kadd"):
            req.add("AVX512DQ" if sfx in ("b", "w") else "AVX512BW")
        elif sfx in ("w", "bw"): req.add("AVX512F") if sfx == "w" else req.add("AVX512DQ")
        elif sfx == "b": req.add("AVX512DQ")
        else: req.add("AVX512BW")
        if mn.startswith("kunpck"):
            req.discard("AVX512DQ"); req.add("AVX512F" if sfx == "bw" else "AVX512BW")
        return req, False
    if enc == "evex":
        req.add("AVX512F")
        if width in ("xmm", "ymm") or (width is None and "zmm" not in ops):
            if width in ("xmm", "ymm"): req.add("AVX512VL")
        if EVEX_BW.match(mn): req.add("AVX512BW")
        if EVEX_DQ.match(mn): req.add("AVX512DQ")
        if EVEX_CD.match(mn): req.add("AVX512CD")
        if EVEX_VBMI2.match(mn): req.add("AVX512VBMI2")
        if EVEX_VBMI.match(mn): req.add("AVX512VBMI")
        if EVEX_VPOPCNT.match(mn): req.add("AVX512VPOPCNTDQ")
        if EVEX_BITALG.match(mn): req.add("AVX512BITALG")
        if EVEX_VNNI.match(mn): req.add("AVX512VNNI")
        if mn.startswith("vgf2p8"): req.add("GFNI")
        if mn.startswith("vpclmul"): req.add("VPCLMULQDQ" if width != "xmm" else "PCLMULQDQ")
        if mn.startswith("vaes"): req.add("VAES")
        return req, False
    if enc == "vex":
        if mn in BMI1: return {"BMI1"}, False
        if mn in BMI2: return {"BMI2"}, False
        req.add("AVX")
        if mn in AVX2_VEX: req.add("AVX2")
        elif width == "ymm" and mn.startswith("vp") and mn not in ("vperm2f128", "vpermilps", "vpermilpd", "vptest"): req.add("AVX2")
        elif mn == "vmovntdqa" and width == "ymm": req.add("AVX2")
        elif mn in ("vbroadcastss", "vbroadcastsd") and re.search(r",\s*xmm", ops): req.add("AVX2")
        if mn.startswith("vpclmul"): req.add("VPCLMULQDQ" if width == "ymm" else "PCLMULQDQ")
        if mn.startswith("vgf2p8"): req.add("GFNI")
        if mn.startswith("vaes"):
            req.add("VAES" if width == "ymm" else "AESNI")
        if mn.startswith("vfm") or mn.startswith("vfnm"): req.add("FMA")
        return req, False
    # legacy encodings
    if mn in SSE3: return {"SSE3"}, False
    if mn in SSSE3: return ({"SSSE3"} if width == "xmm" or "mm" not in ops else {"SSSE3"}), False
    if mn in SSE41 or mn.startswith("pmovzx") or mn.startswith("pmovsx"): return {"SSE4_1"}, False
    if mn == "pextrw" and "PTR" in ops.split(",")[0]: return {"SSE4_1"}, False
    if mn in SSE42: return {"SSE4_2"}, False
    if mn == "popcnt": return {"POPCNT"}, False
    if mn.startswith("pclmul"): return {"PCLMULQDQ"}, False
    if mn.startswith("gf2p8"): return {"GFNI"}, False
    if mn.startswith("aes"): return {"AESNI"}, False
    if mn == "lzcnt": return {"LZCNT"}, False
    if mn == "movbe": return {"MOVBE"}, False
    if mn in ("tzcnt",): return set(), False       # executes as bsf with the same result for non-zero input
    if mn.startswith("sha1") or mn.startswith("sha256"): return {"SHA"}, False
    if mn in ("xgetbv", "cpuid"): return set(), False
    return set(), False

def classify(binary):
    out = subprocess.run(["objdump", "-d", "-M", "intel", "--insn-width=16", "--no-show-raw-insn" if False else "-w", binary],
                         stdout=subprocess.PIPE, text=True, errors="replace", check=True).stdout
    # only ELF FUNC symbols start a function; NASM local labels (NOTYPE) stay inside the enclosing function
    rs = subprocess.run(["readelf", "-sW", binary], stdout=subprocess.PIPE, text=True, errors="replace", check=True).stdout
    funcsyms = set()
    for l in rs.splitlines():
        p = l.split()
        # FUNC symbols, and GLOBAL labels of any type (several kernels are declared `global x` without a type)
        if len(p) >= 8 and (p[3] == "FUNC" or (p[4] == "GLOBAL" and p[3] == "NOTYPE" and p[6].isdigit())):
            funcsyms.add(p[7])
    funcs, cur = {}, None
    for line in out.splitlines():
        m = SYM.match(line)
        if m:
            if m.group(2) not in funcsyms and cur is not None:
                continue
            cur = m.group(2)
            funcs.setdefault(cur, {"req": set(), "calls": set(), "n": 0, "bad": 0, "addr": int(m.group(1), 16)})
            continue
        m = LINE.match(line)
        if not m or cur is None: continue
        raw = bytes(int(x, 16) for x in m.group(2).split())
        text = m.group(3).strip()
        if not text: continue
        parts = text.split(None, 1)
        mn = parts[0]
        ops = parts[1] if len(parts) > 1 else ""
        while mn in ("rep", "repz", "repnz", "lock", "bnd", "notrack", "data16", "addr32", "cs", "ds") and ops:
            parts = ops.split(None, 1); mn = parts[0]; ops = parts[1] if len(parts) > 1 else ""
        f = funcs[cur]
        f["n"] += 1
        if mn == "(bad)":
            f["bad"] += 1; continue
        r, _ = insn_req(mn, ops, raw)
        f["req"] |= r
        if mn in ("call", "jmp") or (mn.startswith("j") and len(mn) <= 5):
            t = TARGET.search(ops)
            if t and t.group(2) != cur and "@plt" not in t.group(2) and t.group(2) in funcsyms:
                f["calls"].add(t.group(2))
    return funcs

def closure(funcs, name, seen=None):
    """requirement set of `name` and everything reachable through direct calls/jumps"""
    seen = seen if seen is not None else set()
    if name in seen or name not in funcs: return set()
    seen.add(name)
    r = set(funcs[name]["req"])
    for c in funcs[name]["calls"]:
        r |= closure(funcs, c, seen)
    return r
