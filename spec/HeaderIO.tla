------------------------------- MODULE HeaderIO -------------------------------
(* The stand-alone header readers with the caller as environment (input in pieces; OK or an error ends the conversation; *)
(* after an overflow code the caller enlarges the buffer and calls again).  Operators: HeaderIOOps.tla.                   *)
EXTENDS HeaderIOOps

(* ---- the caller as environment ---- *)
CONSTANT Kind
VARIABLES bs, wf, held, more, done, last
vars == <<bs, wf, held, more, done, last>>
Init == bs = "NEW_HDR" /\ wf = FALSE /\ held = 0 /\ more = 3 /\ done = FALSE /\ last = "END_INPUT"
Call(give) ==
  /\ ~done
  /\ (give => more > 0 /\ held = 0)
  /\ \E r \in HReadResults(Kind, bs, IF give \/ held = 1 THEN 1 ELSE 0) :
        bs' = r.bs /\ wf' = r.wf /\ held' = r.left /\ last' = r.ret
        /\ done' = (r.ret \notin {"END_INPUT", "NAME_OVERFLOW", "COMMENT_OVERFLOW", "EXTRA_OVERFLOW"})   \* OK or an error ends the conversation
  /\ more' = (IF give THEN more - 1 ELSE more)
Next == \E give \in BOOLEAN : Call(give)
Spec == Init /\ [][Next]_vars

TypeOK == bs \in {HOrder(Kind)[i] : i \in 1..Len(HOrder(Kind))} /\ last \in HCodes(Kind)
(* the header is reported parsed exactly when the reader says OK, and then it is back at NEW_HDR for the deflate data *)
ParsedIffOK == (wf <=> last = "OK") /\ (wf => bs = "NEW_HDR")
(* END_INPUT means everything offered was taken *)
EndInputTakesAll == last = "END_INPUT" => held = 0
(* an overflow code names the field the reader is parked at *)
OverflowParks == last \in DOMAIN HOverflowAt => bs = HGzOrder[HOverflowAt[last]]
(* the reader never goes back to an earlier field while the header is incomplete *)
Forward == [][~wf' /\ ~done' => HPos(HOrder(Kind), bs') >= HPos(HOrder(Kind), bs)]_vars
=============================================================================
