SPECIFICATION Spec
CONSTANTS M = 16 W = 4 MaxPos = 40 Variant = "fixed"
INVARIANT DerefInsideHistory
CHECK_DEADLOCK FALSE
