
