SPECIFICATION Spec
CONSTANT Mode = "GZIP"
INVARIANT TypeOK FinishClean HeaderStatesOnlyBeforeBody TrailerOnlyWhenVerifying NeedDictOnlyZlib FinishNeedsInput
PROPERTY WrapperOnce FinishAbsorbing
CHECK_DEADLOCK FALSE
