SPECIFICATION Spec
INVARIANT TypeOK
INVARIANT EndOnlyAfterEos
INVARIANT TrailerOnlyAfterEos
CHECK_DEADLOCK FALSE
