SPECIFICATION Spec
CONSTANT Kind = "zlib"
INVARIANT TypeOK ParsedIffOK EndInputTakesAll OverflowParks
PROPERTY Forward
CHECK_DEADLOCK FALSE
