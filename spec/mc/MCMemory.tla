---- MODULE MCMemory ----
EXTENDS Memory
====
