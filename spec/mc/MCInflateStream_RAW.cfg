SPECIFICATION Spec
CONSTANT Mode = "RAW"
INVARIANT TypeOK FinishClean HeaderStatesOnlyBeforeBody TrailerOnlyWhenVerifying NeedDictOnlyZlib FinishNeedsInput
PROPERTY WrapperOnce FinishAbsorbing
CHECK_DEADLOCK FALSE
