SPECIFICATION Spec
CONSTANTS M = 16 W = 4 MaxPos = 40 Variant = "seedC17d"
INVARIANT DerefInsideHistory
CHECK_DEADLOCK FALSE
