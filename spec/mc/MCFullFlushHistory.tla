---- MODULE MCFullFlushHistory ----
EXTENDS FullFlushHistory
====
