SPECIFICATION Spec
CONSTANTS H = 4 LA = 3 WH = 2 MaxX = 24 MaxA = 24 MaxQ = 4
CONSTANT ReserveHeader = TRUE
CONSTANT ReserveLookAhead = FALSE
INVARIANT BufferFits
CHECK_DEADLOCK FALSE
