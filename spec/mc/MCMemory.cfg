SPECIFICATION Spec
CONSTANTS Chunks = {c1, c2, c3}
          KeepStale = FALSE
INVARIANT NoFault
INVARIANT RefsLive
