---- MODULE MCMemoryStale_TTrace_1790973935 ----
EXTENDS Sequences, TLCExt, MCMemoryStale_TEConstants, Toolbox, Naturals, TLC, MCMemoryStale

_expression ==
    LET MCMemoryStale_TEExpression == INSTANCE MCMemoryStale_TEExpression
    IN MCMemoryStale_TEExpression!expression
----

_trace ==
    LET MCMemoryStale_TETrace == INSTANCE MCMemoryStale_TETrace
    IN MCMemoryStale_TETrace!trace
----

_inv ==
    ~(
        TLCGet("level") = Len(_TETrace)
        /\
        phase = ("call")
        /\
        outChunk = (c2)
        /\
        availIn = (0)
        /\
        refs = ({c1, "CTX", "LBUF"})
        /\
        mapped = ({c2, "CTX", "LBUF"})
        /\
        inChunk = ("none")
        /\
        faults = (1)
    )
----

_init ==
    /\ outChunk = _TETrace[1].outChunk
    /\ faults = _TETrace[1].faults
    /\ availIn = _TETrace[1].availIn
    /\ refs = _TETrace[1].refs
    /\ inChunk = _TETrace[1].inChunk
    /\ phase = _TETrace[1].phase
    /\ mapped = _TETrace[1].mapped
----

_next ==
    /\ \E i,j \in DOMAIN _TETrace:
        /\ \/ /\ j = i + 1
              /\ i = TLCGet("level")
        /\ outChunk  = _TETrace[i].outChunk
        /\ outChunk' = _TETrace[j].outChunk
        /\ faults  = _TETrace[i].faults
        /\ faults' = _TETrace[j].faults
        /\ availIn  = _TETrace[i].availIn
        /\ availIn' = _TETrace[j].availIn
        /\ refs  = _TETrace[i].refs
        /\ refs' = _TETrace[j].refs
        /\ inChunk  = _TETrace[i].inChunk
        /\ inChunk' = _TETrace[j].inChunk
        /\ phase  = _TETrace[i].phase
        /\ phase' = _TETrace[j].phase
        /\ mapped  = _TETrace[i].mapped
        /\ mapped' = _TETrace[j].mapped

\* Uncomment the ASSUME below to write the states of the error trace
\* to the given file in Json format. Note that you can pass any tuple
\* to `JsonSerialize`. For example, a sub-sequence of _TETrace.
    \* ASSUME
    \*     LET J == INSTANCE Json
    \*         IN J!JsonSerialize("MCMemoryStale_TTrace_1790973935.json", _TETrace)

=============================================================================

 Note that you can extract this module `MCMemoryStale_TEExpression`
  to a dedicated file to reuse `expression` (the module in the 
  dedicated `MCMemoryStale_TEExpression.tla` file takes precedence 
  over the module `MCMemoryStale_TEExpression` below).

---- MODULE MCMemoryStale_TEExpression ----
EXTENDS Sequences, TLCExt, MCMemoryStale_TEConstants, Toolbox, Naturals, TLC, MCMemoryStale

expression == 
    [
        \* To hide variables of the `MCMemoryStale` spec from the error trace,
        \* remove the variables below.  The trace will be written in the order
        \* of the fields of this record.
        outChunk |-> outChunk
        ,faults |-> faults
        ,availIn |-> availIn
        ,refs |-> refs
        ,inChunk |-> inChunk
        ,phase |-> phase
        ,mapped |-> mapped
        
        \* Put additional constant-, state-, and action-level expressions here:
        \* ,_stateNumber |-> _TEPosition
        \* ,_outChunkUnchanged |-> outChunk = outChunk'
        
        \* Format the `outChunk` variable as Json value.
        \* ,_outChunkJson |->
        \*     LET J == INSTANCE Json
        \*     IN J!ToJson(outChunk)
        
        \* Lastly, you may build expressions over arbitrary sets of states by
        \* leveraging the _TETrace operator.  For example, this is how to
        \* count the number of times a spec variable changed up to the current
        \* state in the trace.
        \* ,_outChunkModCount |->
        \*     LET F[s \in DOMAIN _TETrace] ==
        \*         IF s = 1 THEN 0
        \*         ELSE IF _TETrace[s].outChunk # _TETrace[s-1].outChunk
        \*             THEN 1 + F[s-1] ELSE F[s-1]
        \*     IN F[_TEPosition - 1]
    ]

=============================================================================



Parsing and semantic processing can take forever if the trace below is long.
 In this case, it is advised to uncomment the module below to deserialize the
 trace from a generated binary file.

\*
\*---- MODULE MCMemoryStale_TETrace ----
\*EXTENDS IOUtils, MCMemoryStale_TEConstants, TLC, MCMemoryStale
\*
\*trace == IODeserialize("MCMemoryStale_TTrace_1790973935.bin", TRUE)
\*
\*=============================================================================
\*

---- MODULE MCMemoryStale_TETrace ----
EXTENDS MCMemoryStale_TEConstants, TLC, MCMemoryStale

trace == 
    <<
    ([phase |-> "idle",outChunk |-> "none",availIn |-> 0,refs |-> {"CTX", "LBUF"},mapped |-> {"CTX", "LBUF"},inChunk |-> "none",faults |-> 0]),
    ([phase |-> "idle",outChunk |-> "none",availIn |-> 2,refs |-> {"CTX", "LBUF"},mapped |-> {c1, "CTX", "LBUF"},inChunk |-> c1,faults |-> 0]),
    ([phase |-> "idle",outChunk |-> c2,availIn |-> 2,refs |-> {"CTX", "LBUF"},mapped |-> {c1, c2, "CTX", "LBUF"},inChunk |-> c1,faults |-> 0]),
    ([phase |-> "call",outChunk |-> c2,availIn |-> 2,refs |-> {"CTX", "LBUF"},mapped |-> {c1, c2, "CTX", "LBUF"},inChunk |-> c1,faults |-> 0]),
    ([phase |-> "call",outChunk |-> c2,availIn |-> 1,refs |-> {c1, "CTX", "LBUF"},mapped |-> {c1, c2, "CTX", "LBUF"},inChunk |-> c1,faults |-> 0]),
    ([phase |-> "call",outChunk |-> c2,availIn |-> 0,refs |-> {c1, "CTX", "LBUF"},mapped |-> {c1, c2, "CTX", "LBUF"},inChunk |-> c1,faults |-> 0]),
    ([phase |-> "idle",outChunk |-> "none",availIn |-> 0,refs |-> {c1, "CTX", "LBUF"},mapped |-> {c1, c2, "CTX", "LBUF"},inChunk |-> c1,faults |-> 0]),
    ([phase |-> "idle",outChunk |-> c2,availIn |-> 0,refs |-> {c1, "CTX", "LBUF"},mapped |-> {c1, c2, "CTX", "LBUF"},inChunk |-> c1,faults |-> 0]),
    ([phase |-> "idle",outChunk |-> c2,availIn |-> 0,refs |-> {c1, "CTX", "LBUF"},mapped |-> {c2, "CTX", "LBUF"},inChunk |-> "none",faults |-> 0]),
    ([phase |-> "call",outChunk |-> c2,availIn |-> 0,refs |-> {c1, "CTX", "LBUF"},mapped |-> {c2, "CTX", "LBUF"},inChunk |-> "none",faults |-> 0]),
    ([phase |-> "call",outChunk |-> c2,availIn |-> 0,refs |-> {c1, "CTX", "LBUF"},mapped |-> {c2, "CTX", "LBUF"},inChunk |-> "none",faults |-> 1])
    >>
----


=============================================================================

---- MODULE MCMemoryStale_TEConstants ----
EXTENDS MCMemoryStale

CONSTANTS c1, c2, c3

=============================================================================

---- CONFIG MCMemoryStale_TTrace_1790973935 ----
CONSTANTS
    Chunks = { c1 , c2 , c3 }
    KeepStale = TRUE
    c3 = c3
    c2 = c2
    c1 = c1

INVARIANT
    _inv

CHECK_DEADLOCK
    \* CHECK_DEADLOCK off because of PROPERTY or INVARIANT above.
    FALSE

INIT
    _init

NEXT
    _next

CONSTANT
    _TETrace <- _trace

ALIAS
    _expression
=============================================================================
\* Generated on Fri Oct 02 20:45:35 UTC 2026