SPECIFICATION Spec
CONSTANTS M = 16 W = 4 MaxPos = 40 Variant = "defect16"
INVARIANT DerefInsideHistory
CHECK_DEADLOCK FALSE
