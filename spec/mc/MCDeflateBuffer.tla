---- MODULE MCDeflateBuffer ----
EXTENDS DeflateBuffer
====
