SPECIFICATION Spec
CONSTANT Kind = "gzip"
INVARIANT TypeOK ParsedIffOK EndInputTakesAll OverflowParks
PROPERTY Forward
CHECK_DEADLOCK FALSE
