SPECIFICATION Spec
CONSTANT Mode = "GZIP_NO_HDR_VER"
INVARIANT TypeOK FinishClean HeaderStatesOnlyBeforeBody TrailerOnlyWhenVerifying NeedDictOnlyZlib FinishNeedsInput
PROPERTY WrapperOnce FinishAbsorbing
CHECK_DEADLOCK FALSE
