SPECIFICATION Spec
CONSTANTS Chunks = {c1, c2, c3}
          KeepStale = TRUE
INVARIANT NoFault
CONSTRAINT Bounded
