SPECIFICATION Spec
CONSTANT ResetInSyncFlush = TRUE
CONSTANT KeepFlushForMarker = TRUE
INVARIANT TypeOK
INVARIANT NoCrossReference
CHECK_DEADLOCK FALSE
