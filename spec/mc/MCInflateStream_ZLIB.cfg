SPECIFICATION Spec
CONSTANT Mode = "ZLIB"
INVARIANT TypeOK FinishClean HeaderStatesOnlyBeforeBody TrailerOnlyWhenVerifying NeedDictOnlyZlib FinishNeedsInput
PROPERTY WrapperOnce FinishAbsorbing
CHECK_DEADLOCK FALSE
