SPECIFICATION Spec
CONSTANT ResetInSyncFlush = FALSE
CONSTANT KeepFlushForMarker = FALSE
INVARIANT TypeOK
INVARIANT NoCrossReference
CHECK_DEADLOCK FALSE
