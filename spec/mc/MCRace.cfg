SPECIFICATION Spec
CONSTANTS Threads = {t1, t2, t3}
          Funcs = {f1, f2}
          AtomicStore = TRUE
INVARIANT ExecOK
INVARIANT SlotOK
PROPERTY Monotone
PROPERTY Progress
CHECK_DEADLOCK FALSE
