---- MODULE MCRaceTorn ----
EXTENDS DispatchRace
====
