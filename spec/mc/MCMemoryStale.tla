---- MODULE MCMemoryStale ----
EXTENDS Memory
====
