---- MODULE MCRace ----
EXTENDS DispatchRace
====
