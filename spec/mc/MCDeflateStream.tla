---- MODULE MCDeflateStream ----
EXTENDS DeflateStream
====
