SPECIFICATION Spec
CONSTANTS M = 16 W = 4 MaxPos = 40 Variant = "defect10"
INVARIANT DerefInsideHistory
CHECK_DEADLOCK FALSE
