----------------------------- MODULE MCErasure -----------------------------
(* Spec-only check (TLC alone) for C09: with the Cauchy generator every choice of k survivors   *)
(* out of m gives an invertible decode matrix, for every 1 <= k < m <= MaxM; the Vandermonde     *)
(* generator has the same property for the (m,k) pairs erasure_code.h lists as safe (m <= MaxM). *)
(* Also: Invert really inverts (A * A^-1 = I) on those matrices.                                 *)
EXTENDS EC, TLC, IOUtils, Json
MaxM == IF "VERIF_MAXM" \in DOMAIN IOEnv THEN atoi(IOEnv.VERIF_MAXM) ELSE 8
Pairs == {<<m, k>> \in (2..MaxM) \X (1..MaxM) : k < m}
CauchyOK == \A p \in Pairs : AnyKRecover(Cauchy1(p[1], p[2]), p[1], p[2])
RsOK == \A p \in Pairs : RsSafe(p[1], p[2]) => AnyKRecover(RsMatrix(p[1], p[2]), p[1], p[2])
InvOK == \A p \in Pairs : LET A == RowsOf(Cauchy1(p[1], p[2]), (p[1] - p[2] + 1)..p[1]) IN
            p[1] - p[2] + 1 >= 1 /\ (LET r == Invert(A) IN r.ok /\ MatMul(A, r.inv) = Identity(p[2]))
Subsets == FoldLeft(LAMBDA a, i : a, 0, <<>>)
Result == [cauchy_ok |-> CauchyOK, rs_ok |-> RsOK, inv_ok |-> InvOK, maxm |-> MaxM,
           pairs |-> Cardinality(Pairs),
           survivor_sets |-> FoldLeft(LAMBDA a, p : a + Cardinality(kSubset(p[2], 1..p[1])), 0, SetToSeq(Pairs))]
ASSUME ndJsonSerialize(IOEnv.VERIF_OUT, <<Result>>)
=============================================================================
