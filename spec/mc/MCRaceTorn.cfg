SPECIFICATION Spec
CONSTANTS Threads = {t1, t2}
          Funcs = {f1}
          AtomicStore = FALSE
INVARIANT ExecOK
CHECK_DEADLOCK FALSE
