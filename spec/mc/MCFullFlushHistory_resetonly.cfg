SPECIFICATION Spec
CONSTANT ResetInSyncFlush = TRUE
CONSTANT KeepFlushForMarker = FALSE
INVARIANT TypeOK
INVARIANT NoCrossReference
CHECK_DEADLOCK FALSE
