SPECIFICATION Spec
CONSTANT Mode = "GZIP_NO_HDR"
INVARIANT TypeOK FinishClean HeaderStatesOnlyBeforeBody TrailerOnlyWhenVerifying NeedDictOnlyZlib FinishNeedsInput
PROPERTY WrapperOnce FinishAbsorbing
CHECK_DEADLOCK FALSE
