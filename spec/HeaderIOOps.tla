----------------------------- MODULE HeaderIOOps -----------------------------
(* The stand-alone wrapper-header readers isal_read_gzip_header / isal_read_zlib_header as a state machine: the   *)
(* jump-table resume states of igzip_inflate.c (block_state), the positive "need more input" / "buffer too small" *)
(* codes that park the reader at a field, and the caller who hands over input in pieces and enlarges a buffer      *)
(* after an overflow code.  Data is abstracted away; every data-dependent outcome is a nondeterministic choice.    *)
(*   bs    resume state;  wf  wrapper_flag (header completely parsed);  kind  "gzip" | "zlib"                        *)
(* One call: HReadResults(kind, bs, inp) = set of [ret, bs, wf, left]; ret is the documented code name.              *)
EXTENDS Naturals, Sequences, FiniteSets, TLC

HGzOrder == <<"NEW_HDR", "GZIP_EXTRA_LEN", "GZIP_EXTRA", "GZIP_NAME", "GZIP_COMMENT", "GZIP_HCRC">>
HZlOrder == <<"NEW_HDR", "ZLIB_DICT">>
HOrder(kind) == IF kind = "gzip" THEN HGzOrder ELSE HZlOrder
HPos(seq, x) == CHOOSE i \in 1..Len(seq) : seq[i] = x
(* the field at which each overflow code parks the reader (to be resumed with a larger buffer) *)
HOverflowAt == [EXTRA_OVERFLOW |-> 3, NAME_OVERFLOW |-> 4, COMMENT_OVERFLOW |-> 5]
HCodes(kind) == IF kind = "gzip" THEN {"OK", "END_INPUT", "NAME_OVERFLOW", "COMMENT_OVERFLOW", "EXTRA_OVERFLOW", "INVALID_WRAPPER", "UNSUPPORTED_METHOD", "INCORRECT_CHECKSUM"}
               ELSE {"OK", "END_INPUT", "UNSUPPORTED_METHOD", "INCORRECT_CHECKSUM"}

HReadResults(kind, bs, inp) ==
  LET ord == HOrder(kind)  i == HPos(ord, bs)  n == Len(ord) IN
  (* out of input: parked at the same or a later field, everything offered has been taken *)
  {[ret |-> "END_INPUT", bs |-> ord[j], wf |-> FALSE, left |-> 0] : j \in (IF inp = 0 THEN {i} ELSE i..n)}
  \cup (IF inp = 0 /\ i \in {1, 2, 4, 5, 6} THEN {} ELSE      \* these fields need at least one new byte (a zero-length FEXTRA can complete without)
     (* header complete *)
     {[ret |-> "OK", bs |-> "NEW_HDR", wf |-> TRUE, left |-> l] : l \in 0..inp}
     (* a caller buffer is too small: parked at that field, to be called again *)
     \cup (IF kind = "gzip" THEN {[ret |-> c, bs |-> HGzOrder[HOverflowAt[c]], wf |-> FALSE, left |-> l] : c \in {c \in DOMAIN HOverflowAt : HOverflowAt[c] >= i}, l \in 0..inp} ELSE {})
     (* errors: magic and method are looked at in the base header only; FCHECK (zlib) too; the gzip header CRC at the end *)
     \cup (IF i = 1 THEN {[ret |-> c, bs |-> "NEW_HDR", wf |-> FALSE, left |-> l] : c \in (IF kind = "gzip" THEN {"INVALID_WRAPPER", "UNSUPPORTED_METHOD"} ELSE {"UNSUPPORTED_METHOD", "INCORRECT_CHECKSUM"}), l \in 0..inp} ELSE {})
     \cup (IF kind = "gzip" THEN {[ret |-> "INCORRECT_CHECKSUM", bs |-> ord[j], wf |-> FALSE, left |-> l] : j \in i..n, l \in 0..inp} ELSE {}))
=============================================================================
