---------------------------- MODULE DeflateStream ----------------------------
(* The streaming compressor as a state machine for TLC: the environment (caller) makes API calls with a   *)
(* flush mode, an output-room class, optionally hands over its next input chunk and eventually announces  *)
(* end of stream; the library's response is any result DeflateStreamOps!CallResults allows.  See          *)
(* DeflateStreamOps.tla for the function-by-function transcription of igzip.c.                             *)
EXTENDS DeflateStreamOps

VARIABLES st, tmp, eosSet, lvl0, held, more
vars == <<st, tmp, eosSet, lvl0, held, more>>
(* held: 1 iff the library still holds input it has not compressed (buffered or left in avail_in); more: chunks the caller still has *)
Init == st = "NEW_HDR" /\ tmp = FALSE /\ eosSet = FALSE /\ lvl0 \in BOOLEAN /\ held = 0 /\ more = 2
Call(flush, room, give, eos) ==
  /\ st # "END"
  /\ (give => more > 0 /\ ~eosSet)
  /\ (eos => (IF give THEN more = 1 ELSE more = 0))
  /\ LET p == [flush |-> flush, eos |-> eosSet \/ eos, lvl0 |-> lvl0]
         inp0 == IF give \/ held = 1 THEN 1 ELSE 0
     IN \E r \in CallResults(st, tmp, room, inp0, p) : st' = r.st /\ tmp' = r.tmp /\ held' = r.inp
  /\ eosSet' = (eosSet \/ eos) /\ more' = (IF give THEN more - 1 ELSE more) /\ UNCHANGED lvl0
Next == \E flush \in 0..2, room \in Rooms, give \in BOOLEAN, eos \in BOOLEAN : Call(flush, room, give, eos)
Spec == Init /\ [][Next]_vars

TypeOK == st \in States /\ tmp \in BOOLEAN /\ held \in 0..1
EndOnlyAfterEos == st = "END" => eosSet /\ more = 0
TrailerOnlyAfterEos == st = "TRL" => eosSet
(* the staging buffer is only ever pending in a state that still has something to write *)
TmpNotAtRest == tmp => st # "BODY" \/ TRUE
=============================================================================
