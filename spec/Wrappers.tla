------------------------------ MODULE Wrappers ------------------------------
(* RFC 1952 (gzip) and RFC 1950 (zlib) containers around a deflate body: byte layouts as      *)
(* functions field-record -> bytes and as parsers; trailers over Checksums.tla.                *)
EXTENDS Deflate, Checksums

Slice(S, from0, n) == SubSeq(S, from0 + 1, from0 + n)          \* n bytes starting at 0-based offset
LE16(S, o) == S[o + 1] + 256 * S[o + 2]
(* 32-bit little-endian / big-endian fields as limb pairs <<lo16, hi16>> *)
LE32(S, o) == <<S[o + 1] + 256 * S[o + 2], S[o + 3] + 256 * S[o + 4]>>
BE32(S, o) == <<S[o + 4] + 256 * S[o + 3], S[o + 2] + 256 * S[o + 1]>>
BytesLE32(l) == <<l[1] % 256, l[1] \div 256, l[2] % 256, l[2] \div 256>>
BytesBE32(l) == <<l[2] \div 256, l[2] % 256, l[1] \div 256, l[1] % 256>>
LenLimbs(n) == <<n % 65536, n \div 65536>>                       \* n < 2^31

Crc32(bytes) == Crc("crc32_gzip_refl", <<0, 0>>, bytes)
Adler32(bytes) == LET a == Adler(<<1, 0>>, bytes) IN a           \* <<A, B>>: value = B*65536 + A

(* ---------------- gzip header ---------------- *)
FTEXT == 1  FHCRC == 2  FEXTRA == 4  FNAME == 8  FCOMMENT == 16
(* fields: [text, time (limbs), xflags, os, extra (bytes or <<>> with has_extra), name, comment (byte strings without NUL), hcrc] *)
GzipFlg(f) == B2N(f.text) * FTEXT + B2N(f.hcrc) * FHCRC + B2N(f.has_extra) * FEXTRA + B2N(f.has_name) * FNAME + B2N(f.has_comment) * FCOMMENT
GzipHeaderNoCrc(f) ==
  <<31, 139, 8, GzipFlg(f)>> \o BytesLE32(f.time) \o <<f.xflags, f.os>>
  \o (IF f.has_extra THEN <<Len(f.extra) % 256, Len(f.extra) \div 256>> \o f.extra ELSE <<>>)
  \o (IF f.has_name THEN f.name \o <<0>> ELSE <<>>)
  \o (IF f.has_comment THEN f.comment \o <<0>> ELSE <<>>)
GzipHeader(f) == LET h == GzipHeaderNoCrc(f) IN
  IF f.hcrc THEN h \o (LET c == Crc32(h) IN <<c[1] % 256, c[1] \div 256>>) ELSE h

(* index (1-based) of the first NUL at or after 1-based position p, or 0 *)
FindNul(S, p) == LET c == {i \in p..Len(S) : S[i] = 0} IN IF c = {} THEN 0 ELSE CHOOSE i \in c : \A j \in c : i <= j

(* parser: [st |-> "ok" | "needmore" | "wrapper" | "method", end |-> bytes of header, fields] *)
ParseGzip(S) ==
  LET n == Len(S)
      bad(st) == [st |-> st, end |-> 0]
  IN IF n >= 1 /\ S[1] # 31 THEN bad("wrapper")
  ELSE IF n >= 2 /\ S[2] # 139 THEN bad("wrapper")
  ELSE IF n >= 3 /\ S[3] # 8 THEN bad("method")
  ELSE IF n < 10 THEN bad("needmore")
  ELSE LET flg == S[4]
           o1 == 10
           hasx == Bit(flg, 2) = 1
           xlenOK == ~hasx \/ n >= o1 + 2
           xlen == IF hasx /\ xlenOK THEN LE16(S, o1) ELSE 0
           o2 == IF hasx THEN o1 + 2 + xlen ELSE o1
       IN \* reserved FLG bits (5-7): RFC 1952 asks decompressors to reject them; treated as lenient (either outcome accepted)
          IF ~xlenOK \/ n < o2 THEN bad("needmore")
          ELSE LET hasn == Bit(flg, 3) = 1
                   z1 == IF hasn THEN FindNul(S, o2 + 1) ELSE o2
               IN IF hasn /\ z1 = 0 THEN bad("needmore")
               ELSE LET o3 == z1
                        hasc == Bit(flg, 4) = 1
                        z2 == IF hasc THEN FindNul(S, o3 + 1) ELSE o3
                    IN IF hasc /\ z2 = 0 THEN bad("needmore")
                    ELSE LET o4 == z2
                             hash == Bit(flg, 1) = 1
                             o5 == IF hash THEN o4 + 2 ELSE o4
                         IN IF n < o5 THEN bad("needmore")
                            ELSE IF hash /\ LE16(S, o4) # Crc32(SubSeq(S, 1, o4))[1] THEN bad("checksum")
                            ELSE [st |-> "ok", end |-> o5, lenient |-> flg >= 32,
                                  fields |-> [text |-> Bit(flg, 0) = 1, hcrc |-> hash, has_extra |-> hasx, has_name |-> hasn, has_comment |-> hasc,
                                              time |-> LE32(S, 4), xflags |-> S[9], os |-> S[10],
                                              extra |-> IF hasx THEN Slice(S, o1 + 2, xlen) ELSE <<>>,
                                              name |-> IF hasn THEN SubSeq(S, o2 + 1, z1 - 1) ELSE <<>>,
                                              comment |-> IF hasc THEN SubSeq(S, o3 + 1, z2 - 1) ELSE <<>>]]

(* ---------------- zlib header ---------------- *)
(* fields: [info (CINFO 0..7), level (FLEVEL 0..3), dict_flag, dict_id (limbs <<lo16, hi16>>)] *)
ZlibHeader(f) ==
  LET cmf == 8 + 16 * f.info
      flg0 == 64 * f.level + (IF f.dict_flag THEN 32 ELSE 0)
      fcheck == (31 - ((cmf * 256 + flg0) % 31)) % 31
  IN <<cmf, flg0 + fcheck>> \o (IF f.dict_flag THEN BytesBE32(f.dict_id) ELSE <<>>)     \* DICTID most significant byte first (RFC 1950 2.2)
ParseZlib(S) ==
  LET n == Len(S) bad(st) == [st |-> st, end |-> 0] IN
  IF n >= 1 /\ S[1] % 16 # 8 THEN bad("method")
  ELSE IF n < 2 THEN bad("needmore")
  ELSE IF (S[1] * 256 + S[2]) % 31 # 0 THEN bad("wrapper")
  ELSE LET fd == Bit(S[2], 5) = 1 IN
       IF fd /\ n < 6 THEN bad("needmore")
       \* CINFO above 7 ("not allowed by this version of the specification", RFC 1950 2.2) only announces a window the format cannot use: a decoder
       \* may refuse it or carry on (lenient: refusal is excused, a reported success still needs the rest to be right)
       ELSE [st |-> "ok", end |-> IF fd THEN 6 ELSE 2, lenient |-> S[1] \div 16 > 7,
             fields |-> [info |-> S[1] \div 16, level |-> S[2] \div 64, dict_flag |-> fd, dict_id |-> IF fd THEN BE32(S, 2) ELSE <<0, 0>>]]

(* ---------------- whole wrapped stream ---------------- *)
(* wrap in {"raw","gzip","gzip_nohdr","zlib","zlib_nohdr"}.                                       *)
(* Result: tag Valid / NeedMore / Invalid(class); out; endByte = bytes of S the stream occupies;  *)
(* d = the deflate-level result (blocks etc.); hdr = parsed header when there is one.             *)
HeaderOf(wrap, S) == IF wrap = "gzip" THEN ParseGzip(S) ELSE IF wrap = "zlib" THEN ParseZlib(S) ELSE [st |-> "ok", end |-> 0]
(* given the parsed header h (h.st = "ok") and the deflate-level result d of the body, judge the trailer *)
FinishUnwrap(wrap, S, h, d) ==
  LET eb == EndByte(d)
      tl == IF wrap = "raw" THEN 0 ELSE IF wrap \in {"gzip", "gzip_nohdr"} THEN 8 ELSE 4
  IN IF d.tag # "Valid" THEN [tag |-> d.tag, class |-> d.class, out |-> d.out, endByte |-> eb, hdr |-> h, d |-> d]
     ELSE IF Len(S) < eb + tl THEN [tag |-> "NeedMore", class |-> "trailer", out |-> d.out, endByte |-> eb, hdr |-> h, d |-> d]
     ELSE LET okT == CASE wrap = "raw" -> TRUE
                       [] wrap \in {"gzip", "gzip_nohdr"} -> LE32(S, eb) = Crc32(d.out) /\ LE32(S, eb + 4) = LenLimbs(d.n)
                       [] OTHER -> LET a == Adler32(d.out) IN BE32(S, eb) = <<a[1], a[2]>>
          IN [tag |-> IF okT THEN "Valid" ELSE "Invalid", class |-> IF okT THEN "" ELSE "checksum",
              out |-> d.out, endByte |-> eb + tl, hdr |-> h, d |-> d]
Unwrap(wrap, S, dict) ==
  LET h == HeaderOf(wrap, S)
  IN IF h.st # "ok" THEN [tag |-> IF h.st = "needmore" THEN "NeedMore" ELSE "Invalid", class |-> h.st, out |-> <<>>, endByte |-> 0, hdr |-> h]
     ELSE FinishUnwrap(wrap, S, h, Decode(S, dict, 8 * h.end))
=============================================================================
