------------------------------- MODULE Memory -------------------------------
(* C05: the memory contract between a caller and the streaming codec.                          *)
(* Regions: the context (CTX), the level buffer (LBUF) and a pool of chunk buffers used for    *)
(* input (each input chunk lives in its own exact-size mapping) and output.  A call declares   *)
(* its footprint: CTX, LBUF, the current input chunk while avail_in > 0, the current output    *)
(* chunk.  During a call the library may touch only declared regions.  When a call returns     *)
(* with the input chunk fully consumed, that chunk leaves the library's footprint for ever:    *)
(* the caller may unmap or reuse it at once.  `refs` is what the library still holds pointers  *)
(* into between calls (its retained match history must therefore have been COPIED into CTX).   *)
(* KeepStale = TRUE models the defect class "history referenced in place instead of copied".   *)
EXTENDS Naturals, FiniteSets
CONSTANTS Chunks, KeepStale
VARIABLES mapped, inChunk, outChunk, phase, refs, availIn, faults

vars == <<mapped, inChunk, outChunk, phase, refs, availIn, faults>>
Fixed == {"CTX", "LBUF"}
None == "none"

Init == /\ mapped = Fixed /\ inChunk = None /\ outChunk = None /\ phase = "idle" /\ refs = Fixed /\ availIn = 0 /\ faults = 0

(* caller: map a fresh chunk and hand it over as input (only when the previous chunk is used up) *)
GiveInput(c) == /\ phase = "idle" /\ availIn = 0 /\ c \in Chunks \ mapped /\ c # outChunk
                /\ mapped' = mapped \cup {c} /\ inChunk' = c /\ availIn' = 2
                /\ UNCHANGED <<outChunk, phase, refs, faults>>
GiveOutput(c) == /\ phase = "idle" /\ c \in Chunks /\ c # inChunk /\ c \notin refs
                 /\ mapped' = mapped \cup {c} /\ outChunk' = c
                 /\ UNCHANGED <<inChunk, phase, refs, availIn, faults>>
(* caller: release any chunk that is not part of a pending declaration *)
Unmap(c) == /\ phase = "idle" /\ c \in mapped \ Fixed /\ ~(c = inChunk /\ availIn > 0) /\ c # outChunk
            /\ mapped' = mapped \ {c} /\ inChunk' = (IF c = inChunk THEN None ELSE inChunk)
            /\ UNCHANGED <<outChunk, phase, refs, availIn, faults>>
Declared == Fixed \cup (IF availIn > 0 /\ inChunk # None THEN {inChunk} ELSE {}) \cup (IF outChunk # None THEN {outChunk} ELSE {})

BeginCall == /\ phase = "idle" /\ outChunk # None /\ phase' = "call" /\ UNCHANGED <<mapped, inChunk, outChunk, refs, availIn, faults>>
(* library: touches a region it holds a pointer into, or one declared for this call *)
Access(r) == /\ phase = "call" /\ r \in refs \cup Declared
             /\ faults' = IF r \in mapped THEN faults ELSE faults + 1
             /\ UNCHANGED <<mapped, inChunk, outChunk, phase, refs, availIn>>
Consume == /\ phase = "call" /\ availIn > 0 /\ availIn' = availIn - 1
           /\ refs' = IF KeepStale THEN refs \cup {inChunk} ELSE refs        \* correct code copies history into CTX instead
           /\ UNCHANGED <<mapped, inChunk, outChunk, phase, faults>>
EndCall == /\ phase = "call" /\ phase' = "idle"
           /\ refs' = IF KeepStale THEN refs ELSE Fixed \cup (IF availIn > 0 /\ inChunk # None THEN {inChunk} ELSE {})
           /\ outChunk' = None
           /\ UNCHANGED <<mapped, inChunk, availIn, faults>>

Next == \/ \E c \in Chunks : GiveInput(c) \/ GiveOutput(c) \/ Unmap(c)
        \/ BeginCall \/ Consume \/ EndCall \/ \E r \in Fixed \cup Chunks : Access(r)
Spec == Init /\ [][Next]_vars

(* the property: no access ever lands in an unmapped region *)
NoFault == faults = 0
(* between calls the library holds pointers only into caller-declared live memory *)
RefsLive == phase = "idle" => refs \subseteq mapped
Bounded == faults <= 1
=============================================================================
