--------------------------------- MODULE EC ---------------------------------
(* Reed-Solomon erasure code over GF(2^8): encode = matrix product, incremental  *)
(* update, generator matrices as documented in erasure_code.h.                   *)
EXTENDS GF256, FiniteSets, FiniteSetsExt

(* coef: rows x k matrix (sequence of rows); src: k sequences of N bytes.        *)
(* Encode(coef, src)[r][i] = XOR_j coef[r][j] * src[j][i]                        *)
Encode(coef, src) ==
  LET k == Len(src) N == Len(src[1]) IN
  [r \in 1..Len(coef) |-> [i \in 1..N |-> FoldLeft(LAMBDA acc, j : acc ^^ MulTab[coef[r][j]][src[j][i]], 0, Range1(k))]]

(* one incremental update step: parity' = parity + coef[.][j] * srcj *)
Update(par, coef, j, srcj) ==
  [r \in 1..Len(par) |-> [i \in 1..Len(srcj) |-> par[r][i] ^^ MulTab[coef[r][j]][srcj[i]]]]
ZeroPar(rows, N) == [r \in 1..rows |-> [i \in 1..N |-> 0]]

(* constant multiply *)
VectMul(c, s) == [i \in 1..Len(s) |-> MulTab[c][s[i]]]

(* documented generators: identity on top; below it                                  *)
(*   rs:      a[i][j] = (2^(i-k))^j      (rows i = k..m-1, 0-based)                  *)
(*   cauchy1: a[i][j] = 1 / (i XOR j)                                                *)
RECURSIVE GPow(_, _)
GPow(g, e) == IF e = 0 THEN 1 ELSE Mul(g, GPow(g, e - 1))
RsMatrix(m, k) == [i \in 1..m |-> [j \in 1..k |->
      IF i <= k THEN (IF i = j THEN 1 ELSE 0) ELSE GPow(Pow2k(i - 1 - k), j - 1)]]
Cauchy1(m, k) == [i \in 1..m |-> [j \in 1..k |->
      IF i <= k THEN (IF i = j THEN 1 ELSE 0) ELSE Inv((i - 1) ^^ (j - 1))]]

(* the (m,k) pairs erasure_code.h documents as safe for the Vandermonde-style generator *)
RsSafe(m, k) == \/ k <= 3 \/ (k = 4 /\ m <= 25) \/ (k = 5 /\ m <= 10) \/ (k <= 21 /\ m - k = 4) \/ m - k <= 3
(* "any k surviving fragments recover the data": the k x k matrix of the surviving rows is invertible *)
RowsOf(M, S) == LET sq == SetToSeq(S) IN [i \in 1..Len(sq) |-> M[sq[i]]]
AnyKRecover(M, m, k) == \A S \in kSubset(k, 1..m) : NonSingular(RowsOf(M, S))

(* lemmas, checkable by TLC on small sizes *)
UpdateAllEqualsEncode(coef, src, order) ==
  FoldLeft(LAMBDA p, j : Update(p, coef, j, src[j]), ZeroPar(Len(coef), Len(src[1])), order) = Encode(coef, src)
UpdateTwiceCancels(par, coef, j, s) == Update(Update(par, coef, j, s), coef, j, s) = par
=============================================================================
