-------------------------------- MODULE Raid --------------------------------
(* RAID-5/6 parity as documented in raid.h: P = XOR of the sources,               *)
(* Q = sum over GF(2^8)/0x11D of 2^i * D_i.                                       *)
EXTENDS GF256

P(src) == [i \in 1..Len(src[1]) |-> FoldLeft(LAMBDA acc, j : acc ^^ src[j][i], 0, Range1(Len(src)))]
(* Horner: Q = (...((D_{n-1})*2 + D_{n-2})*2 + ... )*2 + D_0 *)
Q(src) == LET n == Len(src) IN
          [i \in 1..Len(src[1]) |-> FoldLeft(LAMBDA acc, j : XTime(acc) ^^ src[n - j][i], 0, Range0(n))]
(* definitional form of Q, used to cross-check Horner *)
QDef(src) == [i \in 1..Len(src[1]) |-> FoldLeft(LAMBDA acc, j : acc ^^ Mul(Pow2k(j - 1), src[j][i]), 0, Range1(Len(src)))]

(* documented domains: xor needs vects >= 3 (sources + P), pq needs vects >= 4 and len % 32 = 0 *)
XorDomain(vects, len) == vects >= 3
PqDomain(vects, len) == vects >= 4 /\ len % 32 = 0

(* two-erasure recovery of data blocks x < y (1-based source indexes) from P, Q and the others:
   Dx + Dy = Pxy ;  gx Dx + gy Dy = Qxy   ==>  Dx = (gy Pxy + Qxy) / (gx + gy) *)
Recover2(srcZeroed, p, q, x, y) ==
  LET pxy == LimbXor(p, P(srcZeroed))
      qxy == LimbXor(q, Q(srcZeroed))
      gx == Pow2k(x - 1)  gy == Pow2k(y - 1)
      d == Inv(gx ^^ gy)
      dx == [i \in 1..Len(p) |-> Mul(d, Mul(gy, pxy[i]) ^^ qxy[i])]
  IN [dx |-> dx, dy |-> LimbXor(pxy, dx)]
=============================================================================
