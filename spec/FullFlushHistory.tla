--------------------------- MODULE FullFlushHistory ---------------------------
(* Where the match history is dropped when a FULL_FLUSH is spread over several calls of isal_deflate()      *)
(* (igzip.c: isal_deflate, isal_deflate_int, isal_deflate_passes, sync_flush, reset_match_history).          *)
(* DeflateStreamOps.tla abstracts the data away completely; this module keeps the one data-related fact      *)
(* that full-flush independence (C14) rests on: whether the hash table may still hold positions from before  *)
(* the last full-flush marker when input is compressed.                                                      *)
(*                                                                                                            *)
(*   st       "NEW_HDR" block boundary | "BODY" a block is open | "SYNC" the end of the block is written and  *)
(*            the 00 00 FF FF marker is committed but not written yet (ZSTATE_SYNC_FLUSH / _TMP_SYNC_FLUSH)   *)
(*   staged   bytes wait in the 16-byte tmp_out_buff (the ZSTATE_TMP_ states)                                 *)
(*   hasHist  state->has_hist # IGZIP_NO_HIST                                                                 *)
(*   stale    the hash table holds entries for input before the last marker that had to be a full-flush       *)
(*            marker (entries a later block must not follow)                                                  *)
(*   reqFull  every call since the block end was committed asked for FULL_FLUSH (the caller is entitled to a  *)
(*            full-flush marker)                                                                              *)
(*   bad      input was compressed while stale: a match may reach back across the flush point                 *)
(*                                                                                                            *)
(* One action per isal_deflate() call: the caller picks the flush mode, how much input it brings (none, some  *)
(* that fits the internal buffer, more than fits) and the output room (none, fewer than 8 bytes, plenty).     *)
(* The two repairs made to the code are switches, so that TLC shows both that the original design violates    *)
(* NoCrossReference (with the call history that does it) and that the repaired one does not:                  *)
(*   ResetInSyncFlush   sync_flush() re-initialises the hash table itself (it only cleared has_hist)          *)
(*   KeepFlushForMarker isal_deflate() keeps the caller's flush type for the pass that completes a pending    *)
(*                      marker (it forced NO_FLUSH whenever more input than fits the buffer was supplied)     *)
EXTENDS Naturals, TLC
CONSTANTS ResetInSyncFlush, KeepFlushForMarker

VARIABLES st, staged, hasHist, stale, reqFull, bad, lastCall     \* lastCall: the call just made (ghost, so that counterexamples read as call histories)
vars == <<st, staged, hasHist, stale, reqFull, bad, lastCall>>
Flush == {"NO", "SYNC", "FULL"}
Inp == {"none", "fits", "more"}          \* "more": avail_in stays > 0 after the internal buffer has been filled
Room == {"none", "few", "plenty"}

S(s, g, h, t, r, b) == [st |-> s, staged |-> g, hasHist |-> h, stale |-> t, reqFull |-> r, bad |-> b]

(* sync_flush(): writes the marker (needs 8 bytes of room, given by the caller or by the staging buffer) *)
SyncFlush(x, f, ef) ==
  LET owed == f = "FULL" /\ x.reqFull                   \* the marker the caller is entitled to is a full-flush marker
      dropped == ef = "FULL"                             \* what the code does: it looks at stream->flush as it is NOW
  IN [x EXCEPT !.st = "NEW_HDR",
               !.hasHist = IF dropped THEN FALSE ELSE @,
               !.stale = IF dropped /\ ResetInSyncFlush THEN FALSE ELSE IF owed THEN TRUE ELSE @]

(* a body/finish pass over the input available to it; `last` = this is all the input of the call *)
Compress(x, ef, last) ==
  LET y == [x EXCEPT !.bad = @ \/ x.stale, !.hasHist = TRUE] IN
  IF last /\ ef # "NO" THEN [y EXCEPT !.st = "SYNC", !.reqFull = ef = "FULL"] ELSE [y EXCEPT !.st = "BODY"]

(* isal_deflate_passes(): the pass, and once more if it only finished a pending flush and input is left *)
Pass(x, f, ef, hasInput, last) ==
  LET a == IF x.st = "SYNC" THEN SyncFlush(x, f, ef)
           ELSE IF hasInput THEN LET c == Compress(x, ef, last) IN IF c.st = "SYNC" THEN SyncFlush(c, f, ef) ELSE c
           ELSE IF x.st = "BODY" /\ ef # "NO" THEN SyncFlush([x EXCEPT !.st = "SYNC", !.reqFull = ef = "FULL"], f, ef)    \* flush of what is buffered
           ELSE x
      second == x.st = "SYNC" /\ a.st = "NEW_HDR" /\ hasInput
      b == IF second THEN LET c == Compress(a, ef, last) IN IF c.st = "SYNC" THEN SyncFlush(c, f, ef) ELSE c ELSE a
  IN b

(* isal_deflate_int(): drain the staging buffer, run the passes; with little room the result may be staged again.        *)
(* Set-valued: how much fits is the data's business.                                                                      *)
IntCall(x, f, ef, room, hasInput, last) ==
  IF x.staged /\ room = "none" THEN {x}
  ELSE LET d == [x EXCEPT !.staged = FALSE]
           done == Pass(d, f, ef, hasInput, last)
           \* the output may fill before the marker is written: the block end stays committed, possibly staged
           stuck == IF d.st = "SYNC" THEN {[d EXCEPT !.staged = g] : g \in BOOLEAN}
                    ELSE IF hasInput /\ last /\ ef # "NO" THEN {[Compress(d, ef, last) EXCEPT !.staged = g] : g \in BOOLEAN}
                    ELSE {}
       IN CASE room = "plenty" -> {done}
            [] room = "few" -> {done, [done EXCEPT !.staged = TRUE]} \cup stuck
            [] OTHER -> {d}                                           \* no room at all: nothing can be written

(* isal_deflate(): history reset at the top, then the buffering loop (one or two iterations here) *)
ApiCall(x, f, inp, room) ==
  LET top == IF ~x.hasHist THEN [x EXCEPT !.stale = FALSE] ELSE x                      \* reset_match_history() at the top of isal_deflate()
      x1 == [top EXCEPT !.reqFull = @ /\ f = "FULL"]
      \* first iteration: with more input than fits, flush / end_of_stream are suspended for this iteration
      ef1 == IF inp = "more" /\ ~(KeepFlushForMarker /\ x1.st = "SYNC") THEN "NO" ELSE f
      it1 == IntCall(x1, f, ef1, room, inp # "none", inp # "more")
      \* second iteration with the rest of the input (only if the first made progress and room is left)
      it2 == UNION {IF inp = "more" /\ room = "plenty" THEN IntCall(y, f, f, room, TRUE, TRUE) ELSE {y} : y \in it1}
  IN it2

Init == st = "NEW_HDR" /\ staged = FALSE /\ hasHist = FALSE /\ stale = FALSE /\ reqFull = FALSE /\ bad = FALSE /\ lastCall = <<>>
Next == \E f \in Flush, inp \in Inp, room \in Room :
          \E y \in ApiCall(S(st, staged, hasHist, stale, reqFull, bad), f, inp, room) :
             /\ st' = y.st /\ staged' = y.staged /\ hasHist' = y.hasHist /\ stale' = y.stale /\ reqFull' = y.reqFull /\ bad' = y.bad
             /\ lastCall' = <<f, inp, room>>
Spec == Init /\ [][Next]_vars

TypeOK == st \in {"NEW_HDR", "BODY", "SYNC"} /\ staged \in BOOLEAN /\ hasHist \in BOOLEAN /\ stale \in BOOLEAN /\ bad \in BOOLEAN
(* C14, second sentence: nothing compressed after a full-flush marker the caller was entitled to follows entries from before it *)
NoCrossReference == ~bad
(* the code's own convention: history marked absent implies a table that holds nothing forbidden - at a call boundary *)
=============================================================================
