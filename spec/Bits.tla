------------------------------- MODULE Bits -------------------------------
(* Byte/bit helpers shared by every module.  TLC integers are 32-bit signed, so  *)
(* nothing here ever builds a value >= 2^31: wider words are tuples of 16-bit    *)
(* limbs (least significant first) or of bytes.                                  *)
EXTENDS Naturals, Sequences, SequencesExt, Bitwise, TLC

Byte == 0..255
Pow2 == <<1,2,4,8,16,32,64,128,256,512,1024,2048,4096,8192,16384,32768,65536,
          131072,262144,524288,1048576,2097152,4194304,8388608,16777216>>
P2(n) == Pow2[n+1]                         \* 2^n for n in 0..24
Bit(x, i) == (x \div P2(i)) % 2            \* bit i of a small natural
MinN(a, b) == IF a < b THEN a ELSE b
MaxN(a, b) == IF a > b THEN a ELSE b

Range1(n) == [i \in 1..n |-> i]            \* <<1..n>> as a sequence to fold over
Range0(n) == [i \in 1..n |-> i-1]          \* <<0..n-1>>

B2N(b) == IF b THEN 1 ELSE 0
Parity8(x) == (Bit(x,0)+Bit(x,1)+Bit(x,2)+Bit(x,3)+Bit(x,4)+Bit(x,5)+Bit(x,6)+Bit(x,7)) % 2
Rev8(x) == Bit(x,0)*128+Bit(x,1)*64+Bit(x,2)*32+Bit(x,3)*16+Bit(x,4)*8+Bit(x,5)*4+Bit(x,6)*2+Bit(x,7)
Rev16(x) == Rev8(x % 256) * 256 + Rev8(x \div 256)

(* reverse the low n bits of x (n <= 16) *)
RevBits(x, n) == FoldLeft(LAMBDA acc, i : acc * 2 + Bit(x, i), 0, Range0(n))

(* 16-bit-limb words, least significant limb first.  Every result is forced with TLCEval: TLC's
   function constructors are lazy and unmemoised, so chained limb operations would otherwise be
   re-evaluated exponentially often. *)
LimbXor(a, b) == TLCEval([i \in 1..Len(a) |-> a[i] ^^ b[i]])
LimbNot(a) == TLCEval([i \in 1..Len(a) |-> 65535 - a[i]])
LimbZero(n) == [i \in 1..n |-> 0]
LimbOnes(n) == [i \in 1..n |-> 65535]
(* shift right by 8 bits *)
LimbShr8(a) == TLCEval([i \in 1..Len(a) |-> (a[i] \div 256) + (IF i < Len(a) THEN (a[i+1] % 256) * 256 ELSE 0)])
(* shift left by 8 bits, dropping overflow *)
LimbShl8(a) == TLCEval([i \in 1..Len(a) |-> ((a[i] % 256) * 256) + (IF i > 1 THEN a[i-1] \div 256 ELSE 0)])
(* shift right by one bit *)
LimbShr1(a) == TLCEval([i \in 1..Len(a) |-> (a[i] \div 2) + (IF i < Len(a) THEN (a[i+1] % 2) * 32768 ELSE 0)])
LimbShl1(a) == TLCEval([i \in 1..Len(a) |-> ((a[i] % 32768) * 2) + (IF i > 1 THEN a[i-1] \div 32768 ELSE 0)])
LimbLowByte(a) == a[1] % 256
LimbHighByte(a) == a[Len(a)] \div 256
LimbLowBit(a) == a[1] % 2
LimbHighBit(a) == a[Len(a)] \div 32768
(* bytes (little endian) <-> limbs *)
LimbsOfBytesLE(b) == [i \in 1..(Len(b) \div 2) |-> b[2*i-1] + 256 * b[2*i]]
BytesLEOfLimbs(a) == [i \in 1..(2*Len(a)) |-> IF i % 2 = 1 THEN a[(i+1) \div 2] % 256 ELSE a[i \div 2] \div 256]
BytesBEOfLimbs(a) == Reverse(BytesLEOfLimbs(a))
=============================================================================
