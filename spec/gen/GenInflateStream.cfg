
