
