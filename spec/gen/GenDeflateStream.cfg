
