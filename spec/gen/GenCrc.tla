------------------------------- MODULE GenCrc -------------------------------
(* C04, direction G: for every (function, seed, message) chosen by the driver, TLC evaluates     *)
(* Checksums.tla and writes the checksum of EVERY prefix of the message (one fold).              *)
EXTENDS Checksums, Json, IOUtils
In == ndJsonDeserialize(IOEnv.VERIF_IN)
Vec(r) ==
  IF r.fn = "adler32" THEN
       [id |-> r.id, fn |-> r.fn, seed |-> r.seed,
        exp |-> IF r.final_only THEN <<Adler(r.seed, r.msg)>> ELSE AdlerPrefixes(r.seed, r.msg)]
  ELSE IF r.fn = "adler32_bam1" THEN   \* ISA-L's internal B|(A-1) form: seed and results converted by the spec
       [id |-> r.id, fn |-> r.fn, seed |-> AdlerToBam1(r.seed),
        exp |-> LET e == IF r.final_only THEN <<Adler(r.seed, r.msg)>> ELSE AdlerPrefixes(r.seed, r.msg)
                IN [i \in 1..Len(e) |-> AdlerToBam1(e[i])]]
  ELSE [id |-> r.id, fn |-> r.fn, seed |-> r.seed,
        exp |-> IF r.final_only THEN <<Crc(r.fn, r.seed, r.msg)>> ELSE CrcPrefixes(r.fn, r.seed, r.msg)]
Out == [i \in 1..Len(In) |-> Vec(In[i])]
ASSUME CheckValuesOK /\ SerialEqualsTable
ASSUME ndJsonSerialize(IOEnv.VERIF_OUT, Out)
=============================================================================
