------------------------------- MODULE GenCrc -------------------------------
(* C04, direction G: for every (function, seed, message) chosen by the driver, TLC evaluates     *)
(* Checksums.tla and writes the checksum of EVERY prefix of the message (one fold).              *)
EXTENDS Checksums, Json, IOUtils
In == ndJsonDeserialize(IOEnv.VERIF_IN)
HugeVec(r) ==     \* message = r.msg \o (zero bytes, count given in binary as r.zbits) \o r.tail; expected value of the whole and of the first part
  IF r.fn \in {"adler32", "adler32_bam1"} THEN
       LET e == <<Adler(r.seed, r.msg), AdlerWithZeros(r.seed, r.msg, r.zbits, r.tail)>>
       IN [id |-> r.id, fn |-> r.fn, seed |-> IF r.fn = "adler32" THEN r.seed ELSE AdlerToBam1(r.seed),
           exp |-> IF r.fn = "adler32" THEN e ELSE [i \in 1..2 |-> AdlerToBam1(e[i])]]
  ELSE [id |-> r.id, fn |-> r.fn, seed |-> r.seed, exp |-> <<Crc(r.fn, r.seed, r.msg), CrcWithZeros(r.fn, r.seed, r.msg, r.zbits, r.tail)>>]
Vec(r) ==
  IF "zbits" \in DOMAIN r THEN HugeVec(r) ELSE
  IF r.fn = "adler32" THEN
       [id |-> r.id, fn |-> r.fn, seed |-> r.seed,
        exp |-> IF r.final_only THEN <<Adler(r.seed, r.msg)>> ELSE AdlerPrefixes(r.seed, r.msg)]
  ELSE IF r.fn = "adler32_bam1" THEN   \* ISA-L's internal B|(A-1) form: seed and results converted by the spec
       [id |-> r.id, fn |-> r.fn, seed |-> AdlerToBam1(r.seed),
        exp |-> LET e == IF r.final_only THEN <<Adler(r.seed, r.msg)>> ELSE AdlerPrefixes(r.seed, r.msg)
                IN [i \in 1..Len(e) |-> AdlerToBam1(e[i])]]
  ELSE [id |-> r.id, fn |-> r.fn, seed |-> r.seed,
        exp |-> IF r.final_only THEN <<Crc(r.fn, r.seed, r.msg)>> ELSE CrcPrefixes(r.fn, r.seed, r.msg)]
Out == [i \in 1..Len(In) |-> Vec(In[i])]
ASSUME CheckValuesOK /\ SerialEqualsTable
ASSUME AlgebraOK /\ AdlerAlgebraOK
ASSUME ndJsonSerialize(IOEnv.VERIF_OUT, Out)
=============================================================================
