
