-------------------------- MODULE GenDeflateStream --------------------------
(* Tabulates DeflateStreamOps!CallEnds for every (entry state, staged flag, room class, input flag, flush, end_of_stream,   *)
(* level-0 flag): the per-call transition relation of the control state machine, written once and used by TraceDeflate       *)
(* (rule M1) to validate the state each recorded isal_deflate call returned in.                                              *)
EXTENDS DeflateStreamOps, Json, IOUtils, Sequences, SequencesExt
Keys == {<<s, t, r, i, f, e, l>> : s \in States, t \in BOOLEAN, r \in Rooms, i \in 0..1, f \in 0..2, e \in BOOLEAN, l \in BOOLEAN}
Row(k) == LET ends == CallEnds(k[1], k[2], k[3], k[4], [flush |-> k[5], eos |-> k[6], lvl0 |-> k[7]]) IN
          [b0 |-> k[1], t0 |-> IF k[2] THEN 1 ELSE 0, room |-> k[3], inp |-> k[4], flush |-> k[5], eos |-> IF k[6] THEN 1 ELSE 0, lvl0 |-> IF k[7] THEN 1 ELSE 0,
           ends |-> SetToSeq({<<x[1], IF x[2] THEN 1 ELSE 0>> : x \in ends})]
Out == LET ks == SetToSeq(Keys) IN [i \in 1..Len(ks) |-> Row(ks[i])]
ASSUME ndJsonSerialize(IOEnv.VERIF_OUT, Out)
=============================================================================
