
