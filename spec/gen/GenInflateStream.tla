-------------------------- MODULE GenInflateStream --------------------------
(* Tabulates InflateStreamOps!CallResults for every (block_state, wrapper parsed, output staged, input buffered, input offered,  *)
(* room offered, mode): the per-call transition relation of the decompressor's control state machine, used by TraceInflate       *)
(* (rule M2) to validate the state each recorded isal_inflate call returned in.  Modes are numbered like crc_flag.               *)
EXTENDS InflateStreamOps, Json, IOUtils, SequencesExt
ModeName == <<"RAW", "GZIP", "GZIP_NO_HDR", "ZLIB", "ZLIB_NO_HDR", "ZLIB_NO_HDR_VER", "GZIP_NO_HDR_VER">>      \* crc_flag 0..6
N(b) == IF b THEN 1 ELSE 0
Keys == {<<s, w, p, b, i, r, m>> : s \in BStates, w \in BOOLEAN, p \in BOOLEAN, b \in BOOLEAN, i \in 0..1, r \in 0..1, m \in 0..6}
Row(k) == LET ends == CallResults(k[1], k[2], k[3], k[4], k[5], k[6], ModeName[k[7] + 1]) IN
          [bs0 |-> k[1], wf0 |-> N(k[2]), pend0 |-> N(k[3]), buf0 |-> N(k[4]), inp |-> k[5], room |-> k[6], mode |-> k[7],
           ends |-> SetToSeq({<<x.bs, N(x.wf), N(x.pend), N(x.buf), x.ret, x.left, x.out>> : x \in ends})]
Rows == {Row(k) : k \in Keys}
Out == SetToSeq({r \in Rows : Len(r.ends) > 0})
ASSUME ndJsonSerialize(IOEnv.VERIF_OUT, Out)
=============================================================================
