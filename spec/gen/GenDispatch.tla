----------------------------- MODULE GenDispatch -----------------------------
(* C16: TLC enumerates every dependency-closed CPU configuration and writes the register images *)
(* the intercepted CPUID/XGETBV must return, in a fixed order shared with TraceDispatch.          *)
EXTENDS Dispatch, Json, IOUtils, SequencesExt
Cfgs == SetToSeq(ClosedConfigs)
Out == [i \in 1..Len(Cfgs) |-> LET c == Cfgs[i] IN
         [c1eax |-> C1Eax(c), c1ecx |-> C1Ecx(c), c7ebx_lo |-> C7EbxLo(c), c7ebx_hi |-> C7EbxHi(c), c7ecx |-> C7Ecx(c), xcr0 |-> Xcr0(c),
          osx |-> c.osx, avail |-> SetToSeq(Avail(c)),
          m4 |-> Init4(c), m5 |-> Init5(c), m6 |-> Init6(c), m7 |-> Init7(c), m8 |-> Init8(c), mc |-> InitClmul(c)]]
ASSUME ndJsonSerialize(IOEnv.VERIF_OUT, Out)
=============================================================================
