------------------------------ MODULE GenRaid ------------------------------
(* C08, direction G: expected P and Q for driver-chosen sources, plus spec-level lemmas    *)
(* (Horner form = definition; two-erasure recovery from P and Q reproduces the data).      *)
EXTENDS Raid, Json, IOUtils

In == ndJsonDeserialize(IOEnv.VERIF_IN)

ZeroOut(src, x, y) == [j \in 1..Len(src) |-> IF j = x \/ j = y THEN [i \in 1..Len(src[j]) |-> 0] ELSE src[j]]
RecoverOK(src, p, q, x, y) ==
  LET r == Recover2(ZeroOut(src, x, y), p, q, x, y) IN r.dx = src[x] /\ r.dy = src[y]

Vec(r) == LET p == P(r.src)  q == Q(r.src)  n == Len(r.src) IN
  [id |-> r.id, P |-> p, Q |-> q,
   horner_is_def |-> (q = QDef(r.src)),
   recover_ok |-> \A pr \in {<<1, 2>>, <<1, n>>, <<n - 1, n>>, <<(n + 1) \div 2, n>>} :
                      pr[1] = pr[2] \/ RecoverOK(r.src, p, q, pr[1], pr[2])]
Out == [i \in 1..Len(In) |-> Vec(In[i])]
ASSUME ndJsonSerialize(IOEnv.VERIF_OUT, Out)
=============================================================================
