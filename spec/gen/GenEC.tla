------------------------------- MODULE GenEC -------------------------------
(* C03 / C13, direction G: for every input record (coefficients, sources, update order) chosen *)
(* by the driver, TLC evaluates EC.tla and writes the expected parity blocks.                *)
EXTENDS EC, Json, IOUtils

In == ndJsonDeserialize(IOEnv.VERIF_IN)

(* parity after every update step, starting from zero: <<P0, P1, ..., Pn>> *)
AfterSteps(coef, src, order) ==
  FoldLeft(LAMBDA acc, j : Append(acc, Update(acc[Len(acc)], coef, j + 1, src[j + 1])),
           <<ZeroPar(Len(coef), Len(src[1]))>>, order)

Vec(r) ==
  IF r.kind = "mul" THEN [kind |-> "mul", id |-> r.id, exp |-> VectMul(r.c, r.src)]
  ELSE IF r.kind = "enc"
  THEN [kind |-> "enc", id |-> r.id, exp |-> Encode(r.coef, r.src)]
  ELSE LET steps == AfterSteps(r.coef, r.src, r.order) IN
       [kind |-> "upd", id |-> r.id, after |-> steps,
        \* lemma instances recorded with the vector: a full pass in this order equals Encode,
        \* when the order is a permutation of all sources
        perm |-> (Len(r.order) = Len(r.src) /\ {r.order[i] : i \in 1..Len(r.order)} = 0..(Len(r.src)-1)),
        equals_encode |-> steps[Len(steps)] = Encode(r.coef, r.src)]

Out == [i \in 1..Len(In) |-> Vec(In[i])]
ASSUME ndJsonSerialize(IOEnv.VERIF_OUT, Out)
=============================================================================
