
