------------------------------- MODULE Deflate -------------------------------
(* RFC 1951 as an executable decoder.  Written with folds so TLC can run it on real   *)
(* streams; it is the only judge of "is this a well-formed deflate stream and what    *)
(* does it decode to" used by the checks for C01 C02 C06 C07 C10 C11 C14 C17 C18.     *)
(*                                                                                    *)
(* Result of Decode(S, dict, startBit):                                               *)
(*   tag = "Valid"    a BFINAL block was closed: out, endBit, blocks                   *)
(*   tag = "NeedMore" the input ended inside a block or between blocks; `atBoundary`  *)
(*                    tells whether it ended exactly after an end-of-block, out/blocks *)
(*                    hold what was decoded so far (used for flush points)             *)
(*   tag = "Invalid"  class in {"block","symbol","lookback"}, atBit, out so far        *)
(* `lenient` is set when the stream uses something RFC 1951 does not clearly forbid    *)
(* but common decoders reject (incomplete code sets, HLIT/HDIST beyond 286/30).        *)
EXTENDS Bits, FiniteSets

(* ---------------- bit access: LSB-first within each byte ---------------- *)
ByteAt(S, k) == IF k <= Len(S) THEN S[k] ELSE 0
(* n <= 16 bits starting at bit position i (0-based) *)
BitsAt(S, i, n) ==
  LET b == i \div 8  sh == i % 8
      w == ByteAt(S, b + 1) + 256 * ByteAt(S, b + 2) + 65536 * ByteAt(S, b + 3)
  IN (w \div P2(sh)) % P2(n)
TotalBits(S) == 8 * Len(S)

(* ---------------- RFC 1951 constants ---------------- *)
LenBase  == <<3,4,5,6,7,8,9,10,11,13,15,17,19,23,27,31,35,43,51,59,67,83,99,115,131,163,195,227,258>>
LenExtra == <<0,0,0,0,0,0,0,0,1,1,1,1,2,2,2,2,3,3,3,3,4,4,4,4,5,5,5,5,0>>
DistBase == <<1,2,3,4,5,7,9,13,17,25,33,49,65,97,129,193,257,385,513,769,1025,1537,2049,3073,4097,6145,8193,12289,16385,24577>>
DistExtra == <<0,0,0,0,1,1,2,2,3,3,4,4,5,5,6,6,7,7,8,8,9,9,10,10,11,11,12,12,13,13>>
ClOrder  == <<16,17,18,0,8,7,9,6,10,5,11,4,12,3,13,2,14,1,15>>
R15 == <<1,2,3,4,5,6,7,8,9,10,11,12,13,14,15>>

(* ---------------- canonical Huffman code from code lengths ---------------- *)
(* L: sequence of code lengths for symbols 0..Len(L)-1.                        *)
(* Table = [cnt |-> <<c1..c15>>, sym |-> symbols ordered by (length, symbol)]  *)
MkTable(L) ==
  LET n == Len(L)
      cnt == TLCEval([l \in 1..15 |-> Cardinality({i \in 1..n : L[i] = l})])
      syms == FoldLeft(LAMBDA acc, l : acc \o SelectSeq([i \in 1..n |-> i - 1], LAMBDA s : L[s + 1] = l), <<>>, R15)
      present == {l \in 1..9 : cnt[l] > 0}
  IN [cnt |-> cnt, sym |-> syms, used |-> Len(syms),
      minLen |-> IF present = {} THEN 1 ELSE CHOOSE l \in present : \A k \in present : l <= k]
(* Kraft sum in units of 2^-15: 32768 = complete, more = over-subscribed, less = incomplete *)
Kraft(L) == FoldLeft(LAMBDA acc, i : acc + (IF L[i] = 0 THEN 0 ELSE P2(15 - L[i])), 0, Range1(Len(L)))

(* puff-style decode of one symbol from the 15 bits w (first stream bit = bit 0 of w). *)
(* Returns <<symbol, length>> or <<-1, 0>> if no code of length <= 15 matches.          *)
RECURSIVE DecSym(_, _, _, _, _, _)
DecSym(T, w, len, code, first, index) ==
  IF len > 15 THEN <<-1, 0>>
  ELSE LET c  == code + Bit(w, len - 1)
           ct == T.cnt[len]
       IN IF c - ct < first THEN <<T.sym[index + (c - first) + 1], len>>
          ELSE DecSym(T, w, len + 1, 2 * c, 2 * (first + ct), index + ct)
(* the first minLen-1 levels cannot match (no codes that short): enter the loop at level minLen with the
   bits read so far already accumulated (bit-reversed through a constant 9-bit table) *)
RevTab9 == TLCEval([x \in 0..511 |-> RevBits(x, 9)])
Sym(T, w) == LET m == T.minLen IN
             IF m = 1 THEN DecSym(T, w, 1, 0, 0, 0)
             ELSE DecSym(T, w, m, 2 * (RevTab9[w % P2(m - 1)] \div P2(10 - m)), 0, 0)

FixedLL == [i \in 1..288 |-> IF i <= 144 THEN 8 ELSE IF i <= 256 THEN 9 ELSE IF i <= 280 THEN 7 ELSE 8]
FixedD  == [i \in 1..30 |-> 5]         \* codes 30,31 of the 5-bit space are unassigned => invalid symbol
FixedLLTab == MkTable(FixedLL)
FixedDTab  == MkTable(FixedD)

(* ---------------- output: 256-byte chunks, negative indexes reach the dictionary ---------------- *)
(* st.chunks: sequence of full 256-byte tuples; st.cur: partial chunk; st.total: bytes so far *)
OutAt(st, dict, i) ==        \* i: 0-based position; i < 0 indexes the preset dictionary from its end
  IF i < 0 THEN dict[Len(dict) + i + 1]
  ELSE LET c == i \div 256 IN IF c < Len(st.chunks) THEN st.chunks[c + 1][(i % 256) + 1] ELSE st.cur[(i % 256) + 1]
Push(st, b) ==
  IF Len(st.cur) = 255 THEN [st EXCEPT !.chunks = Append(st.chunks, Append(st.cur, b)), !.cur = <<>>, !.total = st.total + 1]
  ELSE [st EXCEPT !.cur = Append(st.cur, b), !.total = st.total + 1]
Flatten(st) == FoldLeft(LAMBDA acc, c : acc \o c, <<>>, st.chunks) \o st.cur

(* ---------------- block records ---------------- *)
Inf == 1073741823
NewBlk(type, final, startBit, outFrom) ==
  [type |-> type, final |-> final, startBit |-> startBit, endBit |-> 0, outFrom |-> outFrom, outTo |-> outFrom,
   maxDist |-> 0, minRef |-> Inf, nsym |-> 0]
CloseBlk(st, endBit) == [st EXCEPT !.blocks = Append(st.blocks, [st.blk EXCEPT !.endBit = endBit, !.outTo = st.total]),
                                   !.phase = IF st.blk.final THEN "done" ELSE "hdr", !.pos = endBit]

Fail(st, class, at) == [st EXCEPT !.phase = "invalid", !.class = class, !.failBit = at]
More(st) == [st EXCEPT !.phase = "needmore", !.prev = st.phase]

(* ---------------- dynamic block header ---------------- *)
(* returns [ok, class ("" / "block" / "needmore"), pos, ll, d (tables), lenient] *)
ReadDyn(S, p0) ==
  IF p0 + 14 > TotalBits(S) THEN [ok |-> FALSE, class |-> "needmore"]
  ELSE
  LET hlit == BitsAt(S, p0, 5) + 257   hdist == BitsAt(S, p0 + 5, 5) + 1   hclen == BitsAt(S, p0 + 10, 4) + 4
      p1 == p0 + 14
  IN IF p1 + 3 * hclen > TotalBits(S) THEN [ok |-> FALSE, class |-> "needmore"]
  ELSE
  LET cl == TLCEval([s \in 1..19 |-> LET k == CHOOSE k \in 1..19 : ClOrder[k] = s - 1
                                     IN IF k <= hclen THEN BitsAt(S, p1 + 3 * (k - 1), 3) ELSE 0])
      kcl == Kraft(cl) \div 256          \* units of 2^-7
      clT == MkTable(cl)
      p2 == p1 + 3 * hclen
      want == hlit + hdist
      \* read the code lengths with the 16/17/18 repeat forms; acc = [L, pos, err]
      step(acc, i) ==
        IF acc.err # "" \/ Len(acc.L) >= want THEN acc
        ELSE LET w == BitsAt(S, acc.pos, 7)  sl == Sym(clT, w) IN
             IF sl[1] < 0 THEN [acc EXCEPT !.err = "block"]
             ELSE IF acc.pos + sl[2] > TotalBits(S) THEN [acc EXCEPT !.err = "needmore"]
             ELSE LET p == acc.pos + sl[2]  s == sl[1] IN
               IF s < 16 THEN [acc EXCEPT !.L = Append(acc.L, s), !.pos = p]
               ELSE LET nb == IF s = 16 THEN 2 ELSE IF s = 17 THEN 3 ELSE 7
                        base == IF s = 16 THEN 3 ELSE IF s = 17 THEN 3 ELSE 11
                    IN IF p + nb > TotalBits(S) THEN [acc EXCEPT !.err = "needmore"]
                       ELSE LET rep == base + BitsAt(S, p, nb)
                                v == IF s = 16 THEN (IF Len(acc.L) = 0 THEN -1 ELSE acc.L[Len(acc.L)]) ELSE 0
                            IN IF v < 0 \/ Len(acc.L) + rep > want THEN [acc EXCEPT !.err = "block"]
                               ELSE [acc EXCEPT !.L = acc.L \o [j \in 1..rep |-> v], !.pos = p + nb]
      r == FoldLeft(step, [L |-> <<>>, pos |-> p2, err |-> ""], Range1(want))
  IN IF kcl > 128 THEN [ok |-> FALSE, class |-> "block"]           \* over-subscribed code-length code
     ELSE IF r.err # "" THEN [ok |-> FALSE, class |-> r.err]
     ELSE LET ll == SubSeq(r.L, 1, hlit)   dl == SubSeq(r.L, hlit + 1, want)
              kll == Kraft(ll)  kd == Kraft(dl)
              ndist == Cardinality({i \in 1..Len(dl) : dl[i] # 0})
          IN IF kll > 32768 \/ kd > 32768 THEN [ok |-> FALSE, class |-> "block"]      \* over-subscribed
             ELSE IF ll[257] = 0 THEN [ok |-> FALSE, class |-> "block"]               \* no end-of-block code
             ELSE [ok |-> TRUE, class |-> "", pos |-> r.pos, ll |-> MkTable(ll), d |-> MkTable(dl),
                   lenient |-> (kcl < 128 \/ kll < 32768 \/ (kd < 32768 /\ ~(ndist <= 1)) \/ hlit > 286 \/ hdist > 30),
                   hlit |-> hlit, hdist |-> hdist, lens |-> r.L]

(* ---------------- one step of the decoder ---------------- *)
(* st.phase: "hdr" (expect a block header), "huff" (inside a fixed/dynamic block), "done", "invalid", "needmore" *)
Step(S, dict, st, unused) ==
  IF st.phase \notin {"hdr", "huff"} THEN st
  ELSE IF st.phase = "hdr" THEN
    IF st.pos + 3 > TotalBits(S) THEN More(st)
    ELSE LET final == BitsAt(S, st.pos, 1) = 1   bt == BitsAt(S, st.pos + 1, 2)   p == st.pos + 3 IN
      IF bt = 3 THEN Fail(st, "block", st.pos)
      ELSE IF bt = 0 THEN
        LET q == ((p + 7) \div 8) * 8 IN           \* skip to the byte boundary
        IF q + 32 > TotalBits(S) THEN More(st)
        ELSE LET ln == BitsAt(S, q, 16)  nl == BitsAt(S, q + 16, 16)  b0 == (q \div 8) + 4 IN
          IF ln + nl # 65535 THEN Fail(st, "block", q)
          ELSE IF b0 + ln > Len(S) THEN [More(st) EXCEPT !.partial = SubSeq(S, b0 + 1, Len(S))]    \* the bytes of the stored block that are present are legitimate output
          ELSE LET st1 == [st EXCEPT !.blk = NewBlk("stored", final, st.pos, st.total)]
                   st2 == FoldLeft(LAMBDA a, k : Push(a, S[b0 + k]), st1, Range1(ln))
               IN CloseBlk(st2, 8 * (b0 + ln))
      ELSE IF bt = 1 THEN
        [st EXCEPT !.blk = NewBlk("fixed", final, st.pos, st.total), !.ll = FixedLLTab, !.d = FixedDTab, !.pos = p, !.phase = "huff"]
      ELSE LET h == ReadDyn(S, p) IN
        IF ~h.ok THEN (IF h.class = "needmore" THEN More(st) ELSE Fail(st, "block", st.pos))
        ELSE [st EXCEPT !.blk = NewBlk("dynamic", final, st.pos, st.total), !.ll = h.ll, !.d = h.d, !.pos = h.pos, !.phase = "huff",
                        !.lenient = st.lenient \/ h.lenient]
  ELSE   \* one literal / match / end-of-block
    LET w == BitsAt(S, st.pos, 15)   sl == Sym(st.ll, w) IN
    IF sl[1] < 0 THEN (IF st.pos + 15 > TotalBits(S) THEN More(st) ELSE Fail(st, "symbol", st.pos))
    ELSE IF st.pos + sl[2] > TotalBits(S) THEN More(st)
    ELSE LET p == st.pos + sl[2]  s == sl[1] IN
      IF s < 256 THEN [Push(st, s) EXCEPT !.pos = p, !.blk.nsym = st.blk.nsym + 1]
      ELSE IF s = 256 THEN CloseBlk(st, p)
      ELSE IF s > 285 THEN Fail(st, "symbol", st.pos)
      ELSE LET li == s - 256   eb == LenExtra[li] IN
        IF p + eb > TotalBits(S) THEN More(st)
        ELSE LET mlen == LenBase[li] + BitsAt(S, p, eb)   p2 == p + eb
                 wd == BitsAt(S, p2, 15)   dl == Sym(st.d, wd) IN
          IF dl[1] < 0 THEN (IF p2 + 15 > TotalBits(S) THEN More(st) ELSE Fail(st, "symbol", p2))
          ELSE IF p2 + dl[2] > TotalBits(S) THEN More(st)
          ELSE IF dl[1] > 29 THEN Fail(st, "symbol", p2)
          ELSE LET p3 == p2 + dl[2]  de == DistExtra[dl[1] + 1] IN
            IF p3 + de > TotalBits(S) THEN More(st)
            ELSE LET dist == DistBase[dl[1] + 1] + (IF de <= 8 THEN BitsAt(S, p3, de)
                                                    ELSE BitsAt(S, p3, 8) + 256 * BitsAt(S, p3 + 8, de - 8))
                     p4 == p3 + de IN
              IF dist > st.total + Len(dict) THEN Fail(st, "lookback", st.pos)
              ELSE LET st1 == FoldLeft(LAMBDA a, k : Push(a, OutAt(a, dict, a.total - dist)), st, Range1(mlen)) IN
                   [st1 EXCEPT !.pos = p4, !.blk.nsym = st.blk.nsym + 1,
                               !.blk.maxDist = MaxN(st.blk.maxDist, dist), !.blk.minRef = MinN(st.blk.minRef, st.total - dist)]

Init0(startBit) == [phase |-> "hdr", pos |-> startBit, chunks |-> <<>>, cur |-> <<>>, total |-> 0, blocks |-> <<>>,
                    blk |-> NewBlk("none", FALSE, 0, 0), ll |-> FixedLLTab, d |-> FixedDTab, lenient |-> FALSE, class |-> "", failBit |-> 0, prev |-> "", partial |-> <<>>]
R512 == [i \in 1..512 |-> i]
RECURSIVE Run(_, _, _)
Run(S, dict, st) ==
  IF st.phase \notin {"hdr", "huff"} THEN st
  ELSE Run(S, dict, FoldLeft(LAMBDA a, i : Step(S, dict, a, i), st, R512))

(* ---------------- public results ---------------- *)
ResultOf(S, st) ==
  [tag |-> CASE st.phase = "done" -> "Valid" [] st.phase = "needmore" -> "NeedMore" [] OTHER -> "Invalid",
   out |-> IF st.phase = "needmore" THEN Flatten(st) \o st.partial ELSE Flatten(st), n |-> st.total, endBit |-> st.pos, blocks |-> st.blocks, lenient |-> st.lenient,
   class |-> st.class, failBit |-> st.failBit,
   \* input exhausted exactly where a block header is expected (after an end-of-block, or before any block)
   atBoundary |-> (st.phase = "needmore" /\ st.prev = "hdr" /\ st.pos = TotalBits(S)),
   st |-> st]
Decode(S, dict, startBit) == ResultOf(S, Run(S, dict, Init0(startBit)))
(* continue a decode that stopped for lack of input, now that S has grown (S must extend the old input) *)
Resume(S, dict, st) == ResultOf(S, Run(S, dict, IF st.phase = "needmore" THEN [st EXCEPT !.phase = st.prev, !.partial = <<>>] ELSE st))
DecodeRaw(S) == Decode(S, <<>>, 0)
EndByte(r) == (r.endBit + 7) \div 8
=============================================================================
