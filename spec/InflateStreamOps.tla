--------------------------- MODULE InflateStreamOps ---------------------------
(* The control state machine of the streaming decompressor, igzip_inflate.c: one operator per function of   *)
(* the implementation (isal_read_gzip_header / isal_read_zlib_header with their jump-table resume states,    *)
(* read_header_stateful, decode_literal_block, decode_huffman_code_block_stateless, check_gzip_checksum /    *)
(* check_zlib_checksum and the body of isal_inflate with its tmp_out_buffer staging).  Data is abstracted    *)
(* away; what is kept is                                                                                      *)
(*   bs    block_state (ISAL_BLOCK_* / ISAL_GZIP_* / ISAL_ZLIB_DICT / ISAL_CHECKSUM_CHECK)                    *)
(*   wf    wrapper_flag: the gzip/zlib header has been parsed                                                 *)
(*   pend  TRUE iff decoded bytes are waiting in tmp_out_buffer (tmp_out_valid > tmp_out_processed)           *)
(*   buf   TRUE iff the decoder holds input it has not decoded (read_in_length > 0 or tmp_in_size > 0)        *)
(* and per call: inp (avail_in > 0 at entry), room (avail_out > 0), mode (crc_flag).  Every function is a     *)
(* set-valued operator: all outcomes the real function can have for SOME data.  A call's result is            *)
(*   [bs, wf, pend, buf, ret \in {"OK", "NEED_DICT", "ERR"}, left (avail_in > 0 at return), out (delivered)]  *)
(* The same operators give (a) the Next relation model-checked by TLC (InflateStream.tla) and (b) the         *)
(* per-call relation tabulated by gen/GenInflateStream.tla against which recorded calls of the real library   *)
(* are validated (TraceInflate: rule M2, reported as drift).                                                  *)
EXTENDS Naturals, FiniteSets, Sequences, TLC

BodyStates == {"NEW_HDR", "HDR", "TYPE0", "CODED", "INPUT_DONE"}
GzipOrder == <<"NEW_HDR", "GZIP_EXTRA_LEN", "GZIP_EXTRA", "GZIP_NAME", "GZIP_COMMENT", "GZIP_HCRC">>
ZlibOrder == <<"NEW_HDR", "ZLIB_DICT">>
BStates == BodyStates \cup {"FINISH", "CHECKSUM_CHECK"} \cup {GzipOrder[i] : i \in 2..6} \cup {"ZLIB_DICT"}
Modes == {"RAW", "GZIP", "GZIP_NO_HDR", "ZLIB", "ZLIB_NO_HDR", "ZLIB_NO_HDR_VER", "GZIP_NO_HDR_VER"}
HasHeader(mode) == mode \in {"GZIP", "ZLIB"}                                   \* crc_flag == IGZIP_GZIP / IGZIP_ZLIB
Verifies(mode) == mode \in {"GZIP", "GZIP_NO_HDR_VER", "ZLIB", "ZLIB_NO_HDR_VER"}   \* a trailer is read and compared
Pos(seq, x) == CHOOSE i \in 1..Len(seq) : seq[i] = x

R(bs, wf, pend, buf, ret, left, out) == [bs |-> bs, wf |-> wf, pend |-> pend, buf |-> buf, ret |-> ret, left |-> left, out |-> out]

(* ---- header readers: resume at bs; "more" parks at the same or a later field with all input taken ---- *)
(* result: [k \in {"more", "done", "err"}, bs, left, buf] *)
Header(order, bs, inp, buf) ==
  LET i == Pos(order, bs) IN
  IF inp = 0 THEN {[k |-> "more", bs |-> bs, left |-> 0, buf |-> buf]}          \* fixed_size_read / the copy loops need at least one new byte
  ELSE {[k |-> "more", bs |-> order[j], left |-> 0, buf |-> b] : j \in i..Len(order), b \in BOOLEAN}
       \cup {[k |-> "done", bs |-> "NEW_HDR", left |-> l, buf |-> FALSE] : l \in 0..1}
       \cup {[k |-> "err", bs |-> order[j], left |-> l, buf |-> b] : j \in i..Len(order), l \in 0..1, b \in BOOLEAN}   \* magic / method / FCHECK / header crc

(* ---- trailer: check_gzip_checksum / check_zlib_checksum ---- *)
(* result: [bs, ret, left, buf] *)
Check(inp, buf) ==
  {[bs |-> "CHECKSUM_CHECK", ret |-> "OK", left |-> 0, buf |-> b] : b \in (IF inp = 1 \/ buf THEN BOOLEAN ELSE {FALSE})}   \* trailer incomplete: everything buffered
  \cup (IF inp = 0 /\ ~buf THEN {} ELSE
        {[bs |-> "FINISH", ret |-> r, left |-> l, buf |-> b] : r \in {"OK", "ERR"}, l \in 0..inp, b \in BOOLEAN})          \* compared: equal / ISAL_INCORRECT_CHECKSUM

(* ---- the block decode loop (while block_state != INPUT_DONE: read_header_stateful, then the literal or Huffman decoder) ---- *)
(* result: [bs, left, buf, r \in {"done", "end_input", "overflow", "err"}] *)
DecodeLoop(bs, inp, buf) ==
  IF bs = "INPUT_DONE" THEN {[bs |-> "INPUT_DONE", left |-> inp, buf |-> buf, r |-> "done"]}
  ELSE IF inp = 0 /\ ~buf THEN                                                   \* nothing to decode from
       {[bs |-> IF bs = "NEW_HDR" THEN "HDR" ELSE bs, left |-> 0, buf |-> FALSE, r |-> "end_input"]}
       \cup (IF bs = "TYPE0" THEN {[bs |-> b, left |-> 0, buf |-> FALSE, r |-> x] : b \in {"TYPE0"}, x \in {"overflow"}} ELSE {})
  ELSE {[bs |-> "HDR", left |-> 0, buf |-> b, r |-> "end_input"] : b \in BOOLEAN}                                         \* block header incomplete: saved to tmp_in_buffer
       \cup {[bs |-> s, left |-> 0, buf |-> b, r |-> "end_input"] : s \in {"TYPE0", "CODED"}, b \in BOOLEAN}              \* ran out of input inside a block
       \cup {[bs |-> s, left |-> l, buf |-> b, r |-> "overflow"] : s \in {"TYPE0", "CODED", "NEW_HDR", "INPUT_DONE"}, l \in 0..inp, b \in BOOLEAN}   \* output full (possibly exactly at an end-of-block symbol)
       \cup {[bs |-> "INPUT_DONE", left |-> l, buf |-> b, r |-> "done"] : l \in 0..inp, b \in BOOLEAN}                     \* final block finished
       \cup {[bs |-> s, left |-> l, buf |-> b, r |-> "err"] : s \in {"NEW_HDR", "HDR", "TYPE0", "CODED"}, l \in 0..inp, b \in BOOLEAN}   \* INVALID_BLOCK / _SYMBOL / _LOOKBACK

(* ---- the part of isal_inflate after the wrapper header ---- *)
Finish(mode, wf, left, buf) ==     \* block_state == INPUT_DONE and tmp_out drained: FINISH, then the trailer
  IF Verifies(mode) THEN {R(c.bs, wf, FALSE, c.buf, c.ret, c.left, 0) : c \in Check(left, buf)}    \* (out is filled in by the caller)
  ELSE {R("FINISH", wf, FALSE, buf, "OK", left, 0)}

Body(bs, wf, pend, buf, inp, room, mode) ==
  IF bs = "FINISH" THEN {R("FINISH", wf, pend, buf, "OK", inp, 0)}                  \* nothing happens any more
  ELSE
    LET (* phase A: decode into tmp_out_buffer if it has room (it may not: then nothing changes) *)
        A == {[bs |-> bs, left |-> inp, buf |-> buf, r |-> "skip", pend |-> pend]}
             \cup {[bs |-> d.bs, left |-> d.left, buf |-> d.buf, r |-> d.r, pend |-> p] : d \in DecodeLoop(bs, inp, buf), p \in (IF pend THEN {TRUE} ELSE BOOLEAN)}
        (* copy from tmp_out_buffer to the caller: something is delivered iff bytes are pending and there is room *)
        AfterCopy(a) == IF ~a.pend \/ room = 0 THEN {[bs |-> a.bs, left |-> a.left, buf |-> a.buf, r |-> a.r, pend |-> a.pend, out |-> 0]}
                        ELSE {[bs |-> a.bs, left |-> a.left, buf |-> a.buf, r |-> a.r, pend |-> p, out |-> 1] : p \in BOOLEAN}
        (* phase B: tmp_out drained: decode straight into the caller's buffer; overflow bytes go back to tmp_out.  r2 = how it ended *)
        B(c) == IF c.r = "err" \/ c.pend THEN {[bs |-> c.bs, left |-> c.left, buf |-> c.buf, pend |-> c.pend, out |-> c.out, r2 |-> c.r]}
                ELSE {[bs |-> d.bs, left |-> d.left, buf |-> d.buf, pend |-> p, out |-> o, r2 |-> d.r]
                         : d \in DecodeLoop(c.bs, c.left, c.buf), p \in BOOLEAN, o \in (IF room = 0 THEN {c.out} ELSE {c.out, 1})}
        End(e) == IF e.r2 = "err" THEN {R(e.bs, wf, e.pend, e.buf, "ERR", e.left, e.out)}
                  ELSE IF e.bs = "INPUT_DONE" /\ ~e.pend THEN {[f EXCEPT !.out = e.out] : f \in Finish(mode, wf, e.left, e.buf)}
                  ELSE {R(e.bs, wf, e.pend, e.buf, "OK", e.left, e.out)}
    IN UNION {UNION {End(e) : e \in B(c)} : c \in UNION {AfterCopy(a) : a \in A}}

(* ---- one call of isal_inflate ---- *)
HeaderStates(mode) == IF mode = "GZIP" THEN {GzipOrder[i] : i \in 1..6} ELSE IF mode = "ZLIB" THEN {"NEW_HDR", "ZLIB_DICT"} ELSE {}
CallResults(bs, wf, pend, buf, inp, room, mode) ==
  IF ~wf /\ HasHeader(mode) THEN
    IF bs \notin HeaderStates(mode) THEN {}                                    \* not a state the machine can be in before the wrapper is parsed
    ELSE UNION {
      IF h.k = "more" THEN {R(h.bs, FALSE, pend, h.buf, "OK", 0, 0)}
      ELSE IF h.k = "err" THEN {R(h.bs, FALSE, pend, h.buf, "ERR", h.left, 0)}
      ELSE IF mode = "ZLIB" THEN {R("NEW_HDR", TRUE, pend, FALSE, "NEED_DICT", h.left, 0)} \cup Body("NEW_HDR", TRUE, pend, FALSE, h.left, room, mode)
      ELSE Body("NEW_HDR", TRUE, pend, FALSE, h.left, room, mode)
      : h \in Header(IF mode = "GZIP" THEN GzipOrder ELSE ZlibOrder, bs, inp, buf)}
  ELSE IF bs = "CHECKSUM_CHECK" THEN {R(c.bs, wf, pend, c.buf, c.ret, c.left, 0) : c \in Check(inp, buf)}
  ELSE IF bs \in BodyStates \cup {"FINISH"} THEN Body(bs, wf, pend, buf, inp, room, mode)
  ELSE {}
=============================================================================
