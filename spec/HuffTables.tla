----------------------------- MODULE HuffTables -----------------------------
(* C18: what makes an isal_hufftables structure valid.  The stored dynamic-block header must parse  *)
(* (with Deflate!ReadDyn, the RFC 1951 header parser of the spec) to code lengths L; both alphabets    *)
(* must be complete prefix codes with every length <= 15 and an end-of-block code; one literal, one    *)
(* length (with extra bits) and one distance (with extra bits) must fit the encoder's 56-bit write;    *)
(* and the lookup tables the encoder uses must hold exactly the canonical codes of L (stored           *)
(* bit-reversed, lengths beside them, extra bits appended for the packed length table).                *)
EXTENDS Deflate

(* canonical code values (RFC 1951 3.2.2): code of symbol s = first code of its length + rank among equal lengths *)
CanonCodes(L) ==
  LET n == Len(L)
      cnt == [l \in 0..15 |-> IF l = 0 THEN 0 ELSE Cardinality({i \in 1..n : L[i] = l})]
      nxt == FoldLeft(LAMBDA acc, l : Append(acc, 2 * (acc[l] + cnt[l - 1])), <<0>>, R15)     \* nxt[l+1] = first code of length l
  IN TLCEval([i \in 1..n |-> IF L[i] = 0 THEN 0 ELSE nxt[L[i] + 1] + Cardinality({j \in 1..(i - 1) : L[j] = L[i]})])

MaxBitbufWrite == 56
LenSymOf(len) == CHOOSE s \in 1..29 : LenBase[s] <= len /\ (IF s = 29 THEN len = 258 ELSE len < LenBase[s + 1] /\ len # 258)
DistSymOf(d) == CHOOSE s \in 1..30 : DistBase[s] <= d /\ (s = 30 \/ d < DistBase[s + 1])

(* t: [hdr (bytes), hdr_bits, lit_sizes, lit_codes (257 each), len_table (256 ints), dcodes, dcodes_sizes (30 each), dist_table (ints)] *)
Validate(t) ==
  LET S == t.hdr
      typeOK == Len(S) >= 1 /\ BitsAt(S, 1, 2) = 2
      h == ReadDyn(S, 3)
  IN IF ~typeOK THEN {"header-is-not-a-dynamic-block"}
     ELSE IF ~h.ok THEN {"header-does-not-parse-" \o h.class}
     ELSE
     LET ll == SubSeq(h.lens, 1, h.hlit) \o [i \in 1..(286 - h.hlit) |-> 0]
         dl == SubSeq(h.lens, h.hlit + 1, h.hlit + h.hdist) \o [i \in 1..(30 - h.hdist) |-> 0]
         cll == CanonCodes(ll)   cd == CanonCodes(dl)
         maxLit == FoldLeft(LAMBDA m, i : MaxN(m, ll[i]), 0, Range1(286))
         maxLen == FoldLeft(LAMBDA m, s : MaxN(m, IF ll[257 + s] = 0 THEN 0 ELSE ll[257 + s] + LenExtra[s]), 0, Range1(29))
         maxDist == FoldLeft(LAMBDA m, s : MaxN(m, IF dl[s] = 0 THEN 0 ELSE dl[s] + DistExtra[s]), 0, Range1(30))
         litBad == {i \in 1..257 : ll[i] # 0 /\ (t.lit_sizes[i] # ll[i] \/ t.lit_codes[i] # RevBits(cll[i], ll[i]))}
         lenBad == {k \in 1..256 : LET s == LenSymOf(k + 2)  l == ll[257 + s] IN
                      l # 0 /\ (t.len_table[k] % 32 # l + LenExtra[s]
                                \/ t.len_table[k] \div 32 # RevBits(cll[257 + s], l) + P2(l) * ((k + 2) - LenBase[s]))}
         dBad == {s \in 1..30 : dl[s] # 0 /\ (t.dcodes_sizes[s] # dl[s] \/ t.dcodes[s] # RevBits(cd[s], dl[s]))}
         dtBad == {d \in 1..Len(t.dist_table) : LET s == DistSymOf(d)  l == dl[s] IN
                      l # 0 /\ (t.dist_table[d] % 32 # l + DistExtra[s] \/ t.dist_table[d] \div 32 # RevBits(cd[s], l) + P2(l) * (d - DistBase[s]))}
     IN (IF h.pos # t.hdr_bits THEN {"header-bit-count-differs-from-parsed-length"} ELSE {})
        \cup (IF Kraft(ll) # 32768 THEN {"literal-length-code-is-not-a-complete-prefix-code"} ELSE {})
        \cup (IF Kraft(dl) # 32768 THEN {"distance-code-is-not-a-complete-prefix-code"} ELSE {})
        \cup (IF ll[257] = 0 THEN {"no-end-of-block-code"} ELSE {})
        \cup (IF maxLit > 15 \/ maxDist - 13 > 15 THEN {"code-length-above-15"} ELSE {})
        \cup (IF maxLit + maxLen + maxDist > MaxBitbufWrite THEN {"codes-too-long-for-the-encoder-bit-buffer"} ELSE {})
        \cup (IF litBad # {} THEN {"literal-table-differs-from-header-codes"} ELSE {})
        \cup (IF lenBad # {} THEN {"length-table-differs-from-header-codes"} ELSE {})
        \cup (IF dBad # {} THEN {"distance-code-table-differs-from-header-codes"} ELSE {})
        \cup (IF dtBad # {} THEN {"packed-distance-table-differs-from-header-codes"} ELSE {})
=============================================================================
