------------------------------- MODULE GF256 -------------------------------
(* The field GF(2^8) = GF(2)[x]/(x^8+x^4+x^3+x^2+1)  (0x11D), written down from  *)
(* the polynomial definition: no table is copied from the implementation.        *)
EXTENDS Bits

XTime(a) == IF a >= 128 THEN ((2*a) % 256) ^^ 29 ELSE 2*a      \* multiply by x
(* carry-less shift-and-add product reduced by 0x11D *)
MulDef(a, b) ==
  FoldLeft(LAMBDA s, i : [acc |-> IF Bit(b, i) = 1 THEN s.acc ^^ s.cur ELSE s.acc, cur |-> XTime(s.cur)],
           [acc |-> 0, cur |-> a], Range0(8)).acc

MulTab == TLCEval([a \in Byte |-> TLCEval([b \in Byte |-> MulDef(a, b)])])
Mul(a, b) == MulTab[a][b]
Add(a, b) == a ^^ b
(* the multiplicative inverse, found by search in the product table; Inv(0) = 0 by ISA-L's convention *)
InvTab == TLCEval([a \in Byte |-> IF a = 0 THEN 0 ELSE CHOOSE b \in 1..255 : MulTab[a][b] = 1])
Inv(a) == InvTab[a]
Pow2k(k) == FoldLeft(LAMBDA p, i : Mul(p, 2), 1, Range1(k))    \* 2^k in the field

(* field axioms, checkable by TLC (C12, spec side) *)
AxCommutative == \A a, b \in Byte : Mul(a, b) = Mul(b, a)
AxZeroOne     == \A a \in Byte : Mul(a, 0) = 0 /\ Mul(a, 1) = a
AxInverse     == \A a \in 1..255 : Mul(a, Inv(a)) = 1
AxNoZeroDiv   == \A a, b \in 1..255 : Mul(a, b) # 0
AxDistrib(S)  == \A a, b, c \in S : Mul(a, b ^^ c) = Mul(a, b) ^^ Mul(a, c)
AxAssoc(S)    == \A a, b, c \in S : Mul(a, Mul(b, c)) = Mul(Mul(a, b), c)

(* ISA-L's 32-byte nibble expansion of a constant c: c*i for i=0..15, then c*(16 i) *)
NibbleTbl(c) == [i \in 1..32 |-> IF i <= 16 THEN Mul(c, i-1) ELSE Mul(c, 16*(i-17))]
(* a table-driven product through such a table *)
ViaNibble(t, x) == t[(x % 16) + 1] ^^ t[16 + (x \div 16) + 1]

(* Intel GF2P8AFFINEQB semantics (imm8 = 0): A is the 8 matrix bytes in memory order;  *)
(* result bit i = parity(A.byte[7-i] AND x)                                             *)
Affine(A, x) == FoldLeft(LAMBDA acc, i : acc + P2(i) * Parity8(A[8-i] & x), 0, Range0(8))
(* the unique matrix that multiplies by c: row for output bit i has bit j = bit i of c*2^j *)
GfniMatrix(c) == [r \in 1..8 |-> LET i == 8 - r IN
                   FoldLeft(LAMBDA acc, j : acc + P2(j) * Bit(Mul(c, P2(j)), i), 0, Range0(8))]

(* ---------------- matrices: sequences of rows ---------------- *)
Identity(n) == [i \in 1..n |-> [j \in 1..n |-> IF i = j THEN 1 ELSE 0]]
Dot(r, c) == FoldLeft(LAMBDA acc, i : acc ^^ Mul(r[i], c[i]), 0, Range1(Len(r)))
MatMul(A, B) == LET n == Len(A) m == Len(B[1]) k == Len(B) IN
   [i \in 1..n |-> [j \in 1..m |-> FoldLeft(LAMBDA acc, t : acc ^^ Mul(A[i][t], B[t][j]), 0, Range1(k))]]

(* Gauss-Jordan elimination on [A | I]; returns [ok |-> det # 0, inv |-> A^-1 (if ok)] *)
RECURSIVE Elim(_, _, _)
Elim(M, col, n) ==
  IF col > n THEN [ok |-> TRUE, m |-> M]
  ELSE LET piv == {r \in col..n : M[r][col] # 0} IN
       IF piv = {} THEN [ok |-> FALSE, m |-> M]
       ELSE LET p  == CHOOSE r \in piv : \A q \in piv : r <= q
                M1 == [M EXCEPT ![col] = M[p], ![p] = M[col]]
                iv == Inv(M1[col][col])
                prow == TLCEval([j \in 1..(2*n) |-> Mul(M1[col][j], iv)])
                \* rows are forced (TLCEval): TLC's function constructors are lazy and unmemoised
                M2 == TLCEval([r \in 1..n |-> IF r = col THEN prow
                                      ELSE LET f == M1[r][col] IN
                                           IF f = 0 THEN M1[r] ELSE TLCEval([j \in 1..(2*n) |-> M1[r][j] ^^ Mul(f, prow[j])])])
            IN Elim(M2, col + 1, n)
Invert(A) == LET n == Len(A)
                 aug == TLCEval([i \in 1..n |-> TLCEval([j \in 1..(2*n) |-> IF j <= n THEN A[i][j] ELSE IF j - n = i THEN 1 ELSE 0])])
                 r == Elim(aug, 1, n)
             IN [ok |-> r.ok, inv |-> IF r.ok THEN [i \in 1..n |-> [j \in 1..n |-> r.m[i][n+j]]] ELSE <<>>]
NonSingular(A) == Invert(A).ok
=============================================================================
