----------------------------- MODULE Checksums -----------------------------
(* CRCs and Adler-32 from their mathematical definitions.  A CRC value is a tuple of 16-bit   *)
(* limbs, least significant first (TLC integers are 32-bit).  One parametric bit-serial       *)
(* definition; 256-entry tables are DERIVED from it inside the spec; the thirteen ISA-L        *)
(* instances are parameter records (polynomial, bit order, seed/result inversion as documented *)
(* in crc.h / crc64.h); published check values for "123456789" anchor the definitions.         *)
EXTENDS Bits

(* reverse all bits of an n-limb word *)
ReflectW(a) == LET n == Len(a) IN TLCEval([i \in 1..n |-> Rev16(a[n + 1 - i])])

(* ---- bit-serial definition: feed one byte ---- *)
StepNormBit(crc, poly) == IF LimbHighBit(crc) = 1 THEN LimbXor(LimbShl1(crc), poly) ELSE LimbShl1(crc)
StepReflBit(crc, polyR) == IF LimbLowBit(crc) = 1 THEN LimbXor(LimbShr1(crc), polyR) ELSE LimbShr1(crc)
Times8(F(_), x) == F(F(F(F(F(F(F(F(x))))))))
XorTopByte(crc, b) == [crc EXCEPT ![Len(crc)] = crc[Len(crc)] ^^ (b * 256)]
XorLowByte(crc, b) == [crc EXCEPT ![1] = crc[1] ^^ b]
ByteNormSerial(crc, b, poly)  == LET F(x) == StepNormBit(x, poly)  IN Times8(F, XorTopByte(crc, b))
ByteReflSerial(crc, b, polyR) == LET F(x) == StepReflBit(x, polyR) IN Times8(F, XorLowByte(crc, b))

(* ---- parameter records ---- *)
Params == [
  crc16_t10dif     |-> [poly |-> <<35767>>,                     refl |-> FALSE, inv |-> FALSE],
  crc32_ieee       |-> [poly |-> <<7607, 1217>>,                refl |-> FALSE, inv |-> TRUE],
  crc32_gzip_refl  |-> [poly |-> <<7607, 1217>>,                refl |-> TRUE,  inv |-> TRUE],
  crc32_iscsi      |-> [poly |-> <<28481, 7900>>,               refl |-> TRUE,  inv |-> FALSE],
  crc64_ecma_refl  |-> [poly |-> <<13971, 43498, 57835, 17136>>, refl |-> TRUE,  inv |-> TRUE],
  crc64_ecma_norm  |-> [poly |-> <<13971, 43498, 57835, 17136>>, refl |-> FALSE, inv |-> TRUE],
  crc64_iso_refl   |-> [poly |-> <<27, 0, 0, 0>>,               refl |-> TRUE,  inv |-> TRUE],
  crc64_iso_norm   |-> [poly |-> <<27, 0, 0, 0>>,               refl |-> FALSE, inv |-> TRUE],
  crc64_jones_refl |-> [poly |-> <<13737, 38089, 53813, 44435>>, refl |-> TRUE,  inv |-> TRUE],
  crc64_jones_norm |-> [poly |-> <<13737, 38089, 53813, 44435>>, refl |-> FALSE, inv |-> TRUE],
  crc64_rocksoft_refl |-> [poly |-> <<13913, 38089, 53813, 44435>>, refl |-> TRUE,  inv |-> TRUE],
  crc64_rocksoft_norm |-> [poly |-> <<13913, 38089, 53813, 44435>>, refl |-> FALSE, inv |-> TRUE] ]
FnNames == DOMAIN Params

(* ---- tables derived from the bit-serial definition ---- *)
TableOf(p) == LET n == Len(p.poly) IN
  IF p.refl THEN TLCEval([b \in 0..255 |-> ByteReflSerial(LimbZero(n), b, ReflectW(p.poly))])
            ELSE TLCEval([b \in 0..255 |-> ByteNormSerial(LimbZero(n), b, p.poly)])
Tables == TLCEval([f \in FnNames |-> TableOf(Params[f])])

ByteTab(crc, b, T, refl) ==
  IF refl THEN LimbXor(LimbShr8(crc), T[LimbLowByte(crc) ^^ b])
          ELSE LimbXor(LimbShl8(crc), T[LimbHighByte(crc) ^^ b])

Pre(p, seed)  == IF p.inv THEN LimbNot(seed) ELSE seed
Post(p, crc)  == IF p.inv THEN LimbNot(crc) ELSE crc

(* the checksum of msg continuing from seed (a previous result), table-driven *)
Crc(f, seed, msg) == LET p == Params[f]  T == Tables[f] IN
  Post(p, FoldLeft(LAMBDA c, b : ByteTab(c, b, T, p.refl), Pre(p, seed), msg))
(* same, purely bit-serial (the definition) *)
CrcSerial(f, seed, msg) == LET p == Params[f]  pr == ReflectW(p.poly) IN
  Post(p, FoldLeft(LAMBDA c, b : IF p.refl THEN ByteReflSerial(c, b, pr) ELSE ByteNormSerial(c, b, p.poly), Pre(p, seed), msg))
(* results for every prefix msg[1..i], i = 0..Len(msg), in one pass *)
CrcPrefixes(f, seed, msg) == LET p == Params[f]  T == Tables[f]
    raw == FoldLeft(LAMBDA acc, b : Append(acc, ByteTab(acc[Len(acc)], b, T, p.refl)), <<Pre(p, seed)>>, msg)
  IN [i \in 1..Len(raw) |-> Post(p, raw[i])]

(* ---- Adler-32 (RFC 1950): value <<A, B>>, A starts at 1 ---- *)
AdlerMod == 65521
AdlerStep(s, b) == LET a == (s[1] + b) % AdlerMod IN <<a, (s[2] + a) % AdlerMod>>
Adler(seed, msg) == FoldLeft(AdlerStep, seed, msg)
AdlerPrefixes(seed, msg) == FoldLeft(LAMBDA acc, b : Append(acc, AdlerStep(acc[Len(acc)], b)), <<seed>>, msg)
(* ISA-L keeps B | (A-1) internally so that CRC and Adler share the initial value 0 *)
AdlerToBam1(s) == <<(s[1] + AdlerMod - 1) % AdlerMod, s[2]>>
AdlerFromBam1(s) == <<(s[1] + 1) % AdlerMod, s[2]>>


Check9 == <<49, 50, 51, 52, 53, 54, 55, 56, 57>>     \* the ASCII string "123456789"

(* ---- algebra: advancing through zero bytes, and combining ---- *)
(* The register is a polynomial over GF(2) of degree < W (normal form: bit i = coefficient of x^i); one zero byte multiplies it  *)
(* by x^8 modulo the generator.  StepNormBit IS multiplication by x, so n zero bytes are one multiplication by x^(8n), computed   *)
(* by square-and-multiply.  Lengths beyond 32 bits are given as their binary digits, most significant first (TLC integers are     *)
(* 32-bit).  A reflected CRC is the same map on the bit-reversed register.                                                        *)
LimbBit(a, i) == Bit(a[(i \div 16) + 1], i % 16)                     \* bit i of a limb word
PolyMulMod(a, b, poly) ==                                              \* a * b mod P, Horner over the bits of b
  LET w == 16 * Len(a) IN
  FoldLeft(LAMBDA r, k : LET r2 == StepNormBit(r, poly) IN IF LimbBit(b, w - 1 - k) = 1 THEN LimbXor(r2, a) ELSE r2, LimbZero(Len(a)), Range0(w))
PolyOne(n) == [i \in 1..n |-> IF i = 1 THEN 1 ELSE 0]
XPowBits(bits, poly) ==                                                \* x^e mod P for e given in binary, MSB first
  FoldLeft(LAMBDA r, bit : LET sq == PolyMulMod(r, r, poly) IN IF bit = 1 THEN StepNormBit(sq, poly) ELSE sq, PolyOne(Len(poly)), bits)
(* raw register after n zero bytes; nbits = binary digits of n *)
ZerosRaw(p, reg, nbits) ==
  LET xp == XPowBits(nbits \o <<0, 0, 0>>, p.poly) IN
  IF p.refl THEN ReflectW(PolyMulMod(ReflectW(reg), xp, p.poly)) ELSE PolyMulMod(reg, xp, p.poly)
RawFold(f, reg, msg) == LET p == Params[f]  T == Tables[f] IN FoldLeft(LAMBDA c, b : ByteTab(c, b, T, p.refl), reg, msg)
(* checksum of  a \o (n zero bytes) \o b  continuing from seed *)
CrcWithZeros(f, seed, a, nbits, b) == LET p == Params[f] IN Post(p, RawFold(f, ZerosRaw(p, RawFold(f, Pre(p, seed), a), nbits), b))
(* crc(A \o B) from crc(A) (any seed), crc(B) (seed 0) and the length of B: the map is affine in the register *)
Combine(f, crcA, crcB, nbitsB) == LET p == Params[f]  n == Len(p.poly)
    raw0B == LimbXor(Pre(p, crcB), ZerosRaw(p, Pre(p, LimbZero(n)), nbitsB))          \* B folded from the all-zero register
  IN Post(p, LimbXor(ZerosRaw(p, Pre(p, crcA), nbitsB), raw0B))
BitsOf(n) == IF n = 0 THEN <<>> ELSE LET k == CHOOSE k \in 1..31 : P2(k) > n /\ P2(k - 1) <= n IN [i \in 1..k |-> Bit(n, k - i)]
AlgebraOK == \A f \in FnNames : LET n == Len(Params[f].poly)  a == <<1, 2, 3, 250>>  b == <<9, 0, 77>> IN
     /\ \A z \in {0, 1, 2, 7, 300} : CrcWithZeros(f, LimbOnes(n), a, BitsOf(z), b) = Crc(f, LimbOnes(n), a \o [i \in 1..z |-> 0] \o b)
     /\ Combine(f, Crc(f, LimbOnes(n), a), Crc(f, LimbZero(n), Check9), BitsOf(9)) = Crc(f, LimbOnes(n), a \o Check9)
     /\ Combine(f, Crc(f, LimbZero(n), <<>>), Crc(f, LimbZero(n), b), BitsOf(3)) = Crc(f, LimbZero(n), b)
(* Adler-32 through n zero bytes: A unchanged, B += n * A (mod 65521), by Horner over the binary digits of n *)
AdlerZeros(s, nbits) == <<s[1], (s[2] + FoldLeft(LAMBDA r, bit : (2 * r + bit * s[1]) % AdlerMod, 0, nbits)) % AdlerMod>>
AdlerWithZeros(seed, a, nbits, b) == Adler(AdlerZeros(Adler(seed, a), nbits), b)
AdlerAlgebraOK == \A z \in {0, 1, 5, 5552, 70000} : AdlerWithZeros(<<1, 0>>, Check9, BitsOf(z), <<200, 3>>) = Adler(<<1, 0>>, Check9 \o [i \in 1..z |-> 0] \o <<200, 3>>)

(* ---- anchors: published check values for the ASCII string "123456789" ---- *)
CheckValuesOK ==
  /\ Crc("crc16_t10dif", <<0>>, Check9) = <<53467>>                          \* CRC-16/T10-DIF  D0DB
  /\ Crc("crc32_gzip_refl", <<0, 0>>, Check9) = <<14630, 52212>>             \* CRC-32/ISO-HDLC CBF43926
  /\ Crc("crc32_ieee", <<0, 0>>, Check9) = <<6424, 64649>>                   \* CRC-32/BZIP2    FC891918
  /\ LimbNot(Crc("crc32_iscsi", <<65535, 65535>>, Check9)) = <<37507, 58118>> \* CRC-32C         E3069283
  /\ Crc("crc64_ecma_refl", LimbZero(4), Check9) = <<14842, 57113, 51643, 39261>>     \* CRC-64/XZ     995DC9BBDF1939FA
  /\ Crc("crc64_ecma_norm", LimbZero(4), Check9) = <<61450, 61860, 23011, 25324>>     \* CRC-64/WE     62EC59E3F1A4F00A
  /\ Crc("crc64_iso_refl", LimbZero(4), Check9) = <<4097, 30116, 22215, 47369>>       \* CRC-64/GO-ISO B90956C775A41001
  /\ Crc("crc64_rocksoft_refl", LimbZero(4), Check9) = <<39048, 2681, 5254, 44683>>   \* CRC-64/NVME   AE8B14860A799888
  /\ Adler(<<1, 0>>, Check9) = <<478, 2334>>                                  \* Adler-32 091E01DE
SerialEqualsTable == \A f \in FnNames : LET n == Len(Params[f].poly) IN
     CrcSerial(f, LimbZero(n), Check9) = Crc(f, LimbZero(n), Check9)
  /\ CrcSerial(f, LimbOnes(n), <<0, 255, 1, 128>>) = Crc(f, LimbOnes(n), <<0, 255, 1, 128>>)
(* composition: feeding a message in two pieces with the first result as seed equals one pass *)
Composes(f, seed, a, b) == Crc(f, Crc(f, seed, a), b) = Crc(f, seed, a \o b)
=============================================================================
