----------------------------- MODULE DeflateBuffer -----------------------------
(* The byte budget of the compressor's internal buffer (isal_zstate.buffer, 2 * IGZIP_HIST_SIZE + ISAL_LOOK_AHEAD bytes)   *)
(* when levels 1-3 decide to emit a block as stored (type 0) blocks (igzip.c: create_icf_block_hdr) although the output    *)
(* space cannot take all of it: "what does not fit in the output waits in the internal buffer".  DeflateStreamOps.tla has   *)
(* the control flow of that decision; this module has its arithmetic, in bytes, for one block close followed by the end of  *)
(* the call (isal_deflate's copy of the history it still needs and of the look-ahead) and the start of the next call.       *)
(*                                                                                                                            *)
(*   X     input bytes of the block being closed                      A     avail_out at that moment                         *)
(*   Q     input already turned into match tokens for the NEXT block (level 3 works ahead; 0 at levels 1-2)                  *)
(*   skip  how far the last of those tokens reaches past the consumed input (a match; < ISAL_LOOK_AHEAD)                     *)
(*   hdr   bytes of a gzip/zlib header that still have to come out of the same output space                                  *)
(*                                                                                                                            *)
(* The two repairs made to the code are switches (ReserveHeader: defect 22, ReserveLookAhead: defect 30): TLC shows that     *)
(* without them the budget can be exceeded - with the scenario - and that with them it cannot.                               *)
EXTENDS Naturals, TLC
CONSTANTS H, LA, WH, MaxX, MaxA, MaxQ, ReserveHeader, ReserveLookAhead
B == 2 * H + LA                                   \* sizeof(state->buffer)
Min(a, b) == IF a < b THEN a ELSE b
Monus(a, b) == IF a > b THEN a - b ELSE 0

VARIABLES phase, X, A, Q, skip, hdr, valid, ahead
vars == <<phase, X, A, Q, skip, hdr, valid, ahead>>

Init == /\ phase = "close" /\ X \in 1..MaxX /\ A \in 0..MaxA /\ Q \in 0..MaxQ /\ hdr \in {0, WH}
        /\ skip \in (IF Q > 0 THEN 0..(LA - 1) ELSE {0}) /\ valid = 0 /\ ahead = 0

(* create_icf_block_hdr(): the stored form is chosen only if it fits in output + buffer *)
AvailOutput == Monus(Monus(Monus(A + B, Q), IF ReserveLookAhead THEN LA ELSE 0), IF ReserveHeader THEN hdr ELSE 0)
Admitted == X + 5 <= AvailOutput
(* write_stream_header + write_stored_block(): the wrapper header comes first, then the 5-byte block header and the data *)
Written == Min(X, Monus(Monus(A, hdr), 5))
Close == /\ phase = "close"
         /\ IF Admitted
            THEN \* end of isal_deflate(): keep what is not written yet plus what was tokenised ahead, then buffer look-ahead
                 LET keep == (X - Written) + Q
                     room == Monus(B, keep)
                 IN valid' = keep /\ ahead' = (IF LA < room THEN LA ELSE room) /\ phase' = "next"
            ELSE valid' = 0 /\ ahead' = LA /\ phase' = "other"            \* compressed form: not this module's business
         /\ UNCHANGED <<X, A, Q, skip, hdr>>
Next == Close \/ (phase # "close" /\ UNCHANGED vars)
Spec == Init /\ [][Next]_vars

(* the history the library copies fits the buffer it copies it into *)
BufferFits == phase = "next" => valid <= B
(* the next call's body may skip `skip` bytes of look-ahead: they must have been buffered *)
LookAheadBuffered == phase = "next" /\ Q > 0 => ahead >= skip
=============================================================================
