---------------------------- MODULE DispatchRace ----------------------------
(* C15: the only mutable global state of the library is one pointer-sized slot per public entry   *)
(* point, initialised to a stub that resolves the implementation on first use and patches the     *)
(* slot (include/multibinary.asm: X_dispatched / X_mbinit / X_dispatch_init).  Threads race on    *)
(* first calls.  Each thread step is one machine-level action of that code:                        *)
(*   Load    jmp [X_dispatched]           reads the slot                                           *)
(*   Resolve X_dispatch_init              pure function of the CPU configuration                    *)
(*   Store   mov [X_dispatched], rsi      one store (AtomicStore) or two half stores (torn model)   *)
(*   ReLoad  falls through to jmp [slot]  reads the slot again                                      *)
(*   Exec    runs what was read                                                                     *)
(* Safety: a thread only ever executes the implementation the resolver chooses for that function - *)
(* never the stub twice in a loop, never a half-written pointer - and the slot only ever changes    *)
(* Stub -> chosen.  With AtomicStore = FALSE the invariant fails, which is why the binary is         *)
(* checked for 8-byte aligned slots written by a single 8-byte store.                                *)
EXTENDS Naturals, FiniteSets
CONSTANTS Threads, Funcs, AtomicStore
VARIABLES slot, pc, fn, val, done

vars == <<slot, pc, fn, val, done>>
Stub == <<"stub", "stub">>
Chosen(f) == <<"impl", f>>                 \* what X_dispatch_init computes for f under the (fixed) CPU configuration
Word(v) == <<v, v>>                        \* a pointer as two halves (lo, hi)
Torn(w) == w[1] # w[2]

Init == /\ slot = [f \in Funcs |-> Word(Stub)]
        /\ pc = [t \in Threads |-> "idle"] /\ fn = [t \in Threads |-> CHOOSE f \in Funcs : TRUE]
        /\ val = [t \in Threads |-> Word(Stub)] /\ done = [t \in Threads |-> 0]

Call(t, f) == /\ pc[t] = "idle" /\ done[t] < 2
              /\ fn' = [fn EXCEPT ![t] = f] /\ pc' = [pc EXCEPT ![t] = "load"] /\ UNCHANGED <<slot, val, done>>
Load(t) == /\ pc[t] = "load" /\ val' = [val EXCEPT ![t] = slot[fn[t]]]
           /\ pc' = [pc EXCEPT ![t] = IF slot[fn[t]] = Word(Stub) THEN "resolve" ELSE "exec"] /\ UNCHANGED <<slot, fn, done>>
Resolve(t) == /\ pc[t] = "resolve" /\ pc' = [pc EXCEPT ![t] = IF AtomicStore THEN "store" ELSE "storelo"] /\ UNCHANGED <<slot, fn, val, done>>
Store(t) == /\ pc[t] = "store" /\ slot' = [slot EXCEPT ![fn[t]] = Word(Chosen(fn[t]))]
            /\ pc' = [pc EXCEPT ![t] = "reload"] /\ UNCHANGED <<fn, val, done>>
StoreLo(t) == /\ pc[t] = "storelo" /\ slot' = [slot EXCEPT ![fn[t]] = <<Chosen(fn[t]), slot[fn[t]][2]>>]
              /\ pc' = [pc EXCEPT ![t] = "storehi"] /\ UNCHANGED <<fn, val, done>>
StoreHi(t) == /\ pc[t] = "storehi" /\ slot' = [slot EXCEPT ![fn[t]] = <<slot[fn[t]][1], Chosen(fn[t])>>]
              /\ pc' = [pc EXCEPT ![t] = "reload"] /\ UNCHANGED <<fn, val, done>>
ReLoad(t) == /\ pc[t] = "reload" /\ val' = [val EXCEPT ![t] = slot[fn[t]]] /\ pc' = [pc EXCEPT ![t] = "exec"] /\ UNCHANGED <<slot, fn, done>>
Exec(t) == /\ pc[t] = "exec" /\ pc' = [pc EXCEPT ![t] = "idle"] /\ done' = [done EXCEPT ![t] = done[t] + 1] /\ UNCHANGED <<slot, fn, val>>

Next == \E t \in Threads : \/ \E f \in Funcs : Call(t, f)
                           \/ Load(t) \/ Resolve(t) \/ Store(t) \/ StoreLo(t) \/ StoreHi(t) \/ ReLoad(t) \/ Exec(t)
Spec == Init /\ [][Next]_vars /\ \A t \in Threads : WF_vars(Load(t) \/ Resolve(t) \/ Store(t) \/ StoreLo(t) \/ StoreHi(t) \/ ReLoad(t) \/ Exec(t))

(* what a thread is about to execute is exactly the resolver's choice for its function *)
ExecOK == \A t \in Threads : pc[t] = "exec" => val[t] = Word(Chosen(fn[t]))
(* the slot is only ever the stub or the chosen implementation (never torn when the store is atomic) *)
SlotOK == \A f \in Funcs : slot[f] \in {Word(Stub), Word(Chosen(f))}
(* the slot never goes back *)
Monotone == [][\A f \in Funcs : slot[f] = Word(Chosen(f)) => slot'[f] = Word(Chosen(f))]_vars
(* every started call finishes *)
Progress == \A t \in Threads : pc[t] # "idle" ~> pc[t] = "idle"
=============================================================================
