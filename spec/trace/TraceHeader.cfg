
