
