------------------------------ MODULE TraceHuff ------------------------------
(* C18, direction V: isal_hufftables structures produced by the real builders, judged by HuffTables!Validate *)
EXTENDS HuffTables, Json, IOUtils
Rec == ndJsonDeserialize(IOEnv.VERIF_IN)
Judge(r) == [id |-> r.id, viol |-> SetToSeq((IF r.ret # 0 THEN {"builder-returned-failure"} ELSE {}) \cup (IF r.fault = 1 THEN {"fault"} ELSE Validate(r)))]
Out == [i \in 1..Len(Rec) |-> Judge(Rec[i])]
ASSUME ndJsonSerialize(IOEnv.VERIF_OUT, Out)
=============================================================================
