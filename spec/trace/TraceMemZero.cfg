
