
