
