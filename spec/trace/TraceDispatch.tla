---------------------------- MODULE TraceDispatch ----------------------------
(* C16, direction V: for every dependency-closed configuration (GenDispatch) and every entry    *)
(* point, the REAL resolver's choice (recorded with CPUID/XGETBV intercepted) must satisfy       *)
(* Dispatch!SelectionSafe: the extensions used by the selected implementation (classified from  *)
(* its machine code, transitively) are a subset of what the configuration makes available, and  *)
(* XGETBV is only executed when OSXSAVE is set.  The transcribed macros are compared with the   *)
(* real choice for information only (model drift).                                              *)
EXTENDS Naturals, Sequences, FiniteSets, TLC, Json, IOUtils, SequencesExt
Cfg == ndJsonDeserialize(IOEnv.VERIF_CFGS)      \* one record per configuration (avail, osx, model slots)
Grp == ndJsonDeserialize(IOEnv.VERIF_IN)        \* [entry, sym, req, cfgs (1-based ids), xgetbv_cfgs, macro, slot_syms]
AvailSet == TLCEval([i \in 1..Len(Cfg) |-> {Cfg[i].avail[j] : j \in 1..Len(Cfg[i].avail)}])

BadSel(g) == LET req == {g.req[j] : j \in 1..Len(g.req)} IN
             {g.cfgs[i] : i \in {i \in 1..Len(g.cfgs) : ~(req \subseteq AvailSet[g.cfgs[i]])}}
BadXgetbv(g) == {g.xgetbv_cfgs[i] : i \in {i \in 1..Len(g.xgetbv_cfgs) : ~Cfg[g.xgetbv_cfgs[i]].osx}}
ModelSlot(macro, c) == CASE macro = "mbin_dispatch_init" -> c.m4 [] macro = "mbin_dispatch_init2" -> 2 [] macro = "mbin_dispatch_init5" -> c.m5
                         [] macro = "mbin_dispatch_init6" -> c.m6 [] macro = "mbin_dispatch_init7" -> c.m7 [] macro = "mbin_dispatch_init8" -> c.m8
                         [] macro = "mbin_dispatch_init_clmul" -> c.mc [] OTHER -> 0
Drift(g) == IF g.macro = "custom" THEN 0
            ELSE Cardinality({i \in 1..Len(g.cfgs) : LET s == ModelSlot(g.macro, Cfg[g.cfgs[i]]) IN g.slot_syms[s - 1] # g.sym})
One(g) == LET b == BadSel(g)  x == BadXgetbv(g) IN
          [entry |-> g.entry, sym |-> g.sym, n |-> Len(g.cfgs), nbad |-> Cardinality(b), nxbad |-> Cardinality(x), drift |-> Drift(g),
           first_bad |-> IF b = {} THEN 0 ELSE CHOOSE i \in b : \A j \in b : i <= j,
           first_xbad |-> IF x = {} THEN 0 ELSE CHOOSE i \in x : \A j \in x : i <= j]
Out == [i \in 1..Len(Grp) |-> One(Grp[i])]
ASSUME ndJsonSerialize(IOEnv.VERIF_OUT, Out)
=============================================================================
