------------------------------ MODULE TraceEqual ------------------------------
(* Relational (2-safety) claims of C15/C17 by self-composition: two recorded runs that the property says *)
(* must be observationally equal (e.g. pre-processed vs directly set dictionary; only the last 32 KiB of *)
(* a longer dictionary matter; different pre-fills of context/level buffer; fresh vs reset context).      *)
EXTENDS Naturals, Sequences, Json, IOUtils, TLC
Pairs == ndJsonDeserialize(IOEnv.VERIF_IN)      \* [id, a, b] : a, b = sequences of observations (bytes, return codes, ...)
Judge(p) == [id |-> p.id, equal |-> p.a = p.b,
             first_diff |-> IF p.a = p.b THEN 0 ELSE IF Len(p.a) # Len(p.b) /\ SubSeq(p.a, 1, IF Len(p.a) < Len(p.b) THEN Len(p.a) ELSE Len(p.b)) = SubSeq(p.b, 1, IF Len(p.a) < Len(p.b) THEN Len(p.a) ELSE Len(p.b))
                            THEN (IF Len(p.a) < Len(p.b) THEN Len(p.a) ELSE Len(p.b)) + 1
                            ELSE CHOOSE i \in 1..Len(p.a) : i <= Len(p.b) /\ p.a[i] # p.b[i] /\ \A j \in 1..(i - 1) : p.a[j] = p.b[j]]
Out == [i \in 1..Len(Pairs) |-> Judge(Pairs[i])]
ASSUME ndJsonSerialize(IOEnv.VERIF_OUT, Out)
=============================================================================
