
