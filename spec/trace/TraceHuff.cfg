
