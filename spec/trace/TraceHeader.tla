---------------------------- MODULE TraceHeader ----------------------------
(* C19: recorded behaviour of isal_write_gzip_header / isal_write_zlib_header / isal_read_gzip_header /    *)
(* isal_read_zlib_header judged against the RFC 1952 / RFC 1950 layouts of Wrappers.tla.                 *)
(* Writers (rules W1, W2): too little space => the required size is returned and nothing is touched;       *)
(* otherwise the bytes written must be exactly Len(layout) long and PARSE (ParseGzip / ParseZlib, i.e. the  *)
(* RFC byte order, FCHECK, header CRC16) back to the field values given.                                   *)
(* Readers (rules H1-H5): documented codes; END_INPUT only with all given input consumed; after overflow   *)
(* the call is repeated with a larger buffer; on OK the fields equal the spec's parse of the bytes and the *)
(* position is the first byte after the header; no fault.                                                  *)
EXTENDS Wrappers, HeaderIOOps, Json, IOUtils
In == ndJsonDeserialize(IOEnv.VERIF_IN)      \* scenario inputs (field values / header bytes), keyed by id
Rec == ndJsonDeserialize(IOEnv.VERIF_TRACE)  \* what the real code did
ById == [i \in 1..Len(In) |-> In[i]]
Find(id) == In[CHOOSE i \in 1..Len(In) : In[i].id = id]

GzFields(s) == [text |-> s.text = 1, time |-> s.time, xflags |-> s.xflags, os |-> s.os, has_extra |-> s.has_extra = 1, extra |-> s.extra,
                has_name |-> s.has_name = 1, name |-> s.name, has_comment |-> s.has_comment = 1, comment |-> s.comment, hcrc |-> s.hcrc = 1]
ZFields(s) == [info |-> s.info, level |-> s.level, dict_flag |-> s.dict_flag = 1, dict_id |-> IF s.dict_flag = 1 THEN s.dict_id ELSE <<0, 0>>]

JudgeWriter(r) ==
  LET s == Find(r.id)
      gz == r.t = "wgzip"
      need == IF gz THEN Len(GzipHeader(GzFields(s))) ELSE Len(ZlibHeader(ZFields(s)))
  IN IF r.fault = 1 THEN {"W-fault"}
     ELSE IF r.ao < need THEN
          (IF r.ret # need THEN {"W1-required-size-not-returned"} ELSE {})
          \cup (IF r.adv # 0 \/ r.dao # 0 \/ r.dto # 0 \/ r.touched # 0 THEN {"W1-stream-touched-although-space-too-small"} ELSE {})
     ELSE (IF r.ret # 0 THEN {"W2-sufficient-space-rejected"} ELSE {})
          \cup (IF r.ret = 0 /\ (r.adv # need \/ r.dao # need \/ r.dto # need \/ Len(r.bytes) # need) THEN {"W2-counters-or-length-differ-from-layout-size"} ELSE {})
          \cup (IF r.untouched_before # 1 THEN {"W2-wrote-before-next_out"} ELSE {})
          \cup (IF r.ret # 0 \/ Len(r.bytes) # need THEN {}
                ELSE IF gz THEN (LET p == ParseGzip(r.bytes) IN
                                   IF p.st # "ok" THEN {"W2-gzip-header-does-not-parse-" \o p.st}
                                   ELSE IF p.end # need THEN {"W2-gzip-header-length"}
                                   ELSE IF p.fields # GzFields(s) THEN {"W2-gzip-header-fields-differ-from-RFC1952-layout"} ELSE {})
                ELSE (LET p == ParseZlib(r.bytes) IN
                        IF p.st # "ok" THEN {"W2-zlib-header-does-not-parse-" \o p.st}
                        ELSE IF p.fields.info # s.info \/ p.fields.level # s.level \/ p.fields.dict_flag # (s.dict_flag = 1) THEN {"W2-zlib-header-fields-differ"}
                        ELSE IF s.dict_flag = 1 /\ p.fields.dict_id # s.dict_id THEN {"W2-zlib-DICTID-not-most-significant-byte-first"} ELSE {}))

(* M3 (conformance with the reader state machine HeaderIOOps): every recorded reader call must be a step the model allows from the resume state it
   was entered in (reported as drift, not as a violation).  step = <<ret, avail_in, consumed, faulted, state before, state after, wrapper_flag>> *)
CodeName(c) == CASE c = 0 -> "OK" [] c = 1 -> "END_INPUT" [] c = 3 -> "NAME_OVERFLOW" [] c = 4 -> "COMMENT_OVERFLOW" [] c = 5 -> "EXTRA_OVERFLOW"
                 [] c = -4 -> "INVALID_WRAPPER" [] c = -5 -> "UNSUPPORTED_METHOD" [] c = -6 -> "INCORRECT_CHECKSUM" [] OTHER -> "?"
StepInModel(kind, st) ==
  LET k == IF kind = 0 THEN "gzip" ELSE "zlib"
      ord == HOrder(k)
  IN IF Len(st) < 7 \/ st[4] = 1 THEN TRUE
     ELSE IF st[5] \notin {ord[i] : i \in 1..Len(ord)} THEN FALSE
     ELSE LET res == HReadResults(k, st[5], IF st[2] > 0 THEN 1 ELSE 0)
              obs == [ret |-> CodeName(st[1]), bs |-> st[6], wf |-> st[7] = 1, left |-> IF st[2] - st[3] > 0 THEN 1 ELSE 0]
          IN IF st[1] < 0 THEN \E r \in res : r.ret = obs.ret            \* after an error only the code is compared
             ELSE obs \in res
Drift(r) == IF r.t # "read" THEN 0 ELSE Cardinality({i \in 1..Len(r.steps) : ~StepInModel(r.kind, r.steps[i])})
StepKeys(r) == IF r.t # "read" THEN {} ELSE {<<r.kind, r.steps[i][5], IF r.steps[i][2] > 0 THEN 1 ELSE 0, r.steps[i][1], r.steps[i][6]>> : i \in {i \in 1..Len(r.steps) : Len(r.steps[i]) >= 7}}

Documented(kind) == IF kind = 0 THEN {0, 1, 3, 4, 5, -4, -5, -6} ELSE {0, 1, -4, -5, -6}
JudgeReader(r) ==
  LET s == Find(r.id)
      p == IF r.kind = 0 THEN ParseGzip(s.bytes) ELSE ParseZlib(s.bytes)
      steps == r.steps
      codes == {steps[i][1] : i \in 1..Len(steps)}
      v1 == IF codes \subseteq Documented(r.kind) THEN {} ELSE {"H1-undocumented-return-code"}
      v2 == IF \E i \in 1..Len(steps) : steps[i][1] = 1 /\ steps[i][3] # steps[i][2] THEN {"H2-END_INPUT-with-input-left"} ELSE {}
      v2b == IF \E i \in 1..Len(steps) : steps[i][3] > steps[i][2] THEN {"H5-consumed-more-than-available"} ELSE {}
      v5 == IF r.fault = 1 THEN {"H5-fault"} ELSE {}
      final ==
        IF r.fault = 1 THEN {}
        ELSE IF p.st = "ok" /\ s.expect_complete = 1 THEN
             (IF r.ret # 0 THEN (IF "lenient" \in DOMAIN p /\ p.lenient THEN {} ELSE {"H4-well-formed-header-not-accepted"}) ELSE
                (IF r.pos # p.end THEN {"H4-position-after-header-wrong"} ELSE {})
                \cup (IF r.kind = 0 THEN
                         (IF r.text # (IF p.fields.text THEN 1 ELSE 0) \/ <<r.time_lo, r.time_hi>> # p.fields.time \/ r.xflags # p.fields.xflags \/ r.os # p.fields.os
                             THEN {"H4-gzip-fixed-fields-differ"} ELSE {})
                         \* (a field whose user buffer is NULL is skipped by the reader: nobuf bit 1 name, 2 comment, 4 extra)
                         \cup (IF p.fields.has_extra /\ (r.nobuf \div 4) % 2 = 0 /\ (r.extra_len # Len(p.fields.extra) \/ r.extra # p.fields.extra) THEN {"H4-gzip-extra-differs"} ELSE {})
                         \cup (IF p.fields.has_name /\ r.nobuf % 2 = 0 /\ (r.name # p.fields.name \/ r.name_terminated # 1) THEN {"H4-gzip-name-differs"} ELSE {})
                         \cup (IF p.fields.has_comment /\ (r.nobuf \div 2) % 2 = 0 /\ (r.comment # p.fields.comment \/ r.comment_terminated # 1) THEN {"H4-gzip-comment-differs"} ELSE {})
                      ELSE (IF r.info # p.fields.info \/ r.level # p.fields.level \/ r.dict_flag # (IF p.fields.dict_flag THEN 1 ELSE 0) THEN {"H4-zlib-fields-differ"} ELSE {})
                           \cup (IF p.fields.dict_flag /\ <<r.id_lo, r.id_hi>> # p.fields.dict_id THEN {"H4-zlib-DICTID-not-most-significant-byte-first"} ELSE {})))
        ELSE IF p.st = "ok" THEN {}                                       \* undersized buffers without growth: overflow is the expected end
        ELSE IF p.st = "needmore" THEN (IF r.ret = 0 THEN {"H4-truncated-header-accepted"} ELSE {})
        ELSE (IF r.ret = 0 /\ ~(IF "lenient" \in DOMAIN p THEN p.lenient ELSE FALSE) THEN {"H4-malformed-header-accepted-" \o p.st} ELSE {})
  IN v1 \cup v2 \cup v2b \cup v5 \cup final

Judge(r) == [t |-> r.t, id |-> r.id, viol |-> SetToSeq(IF r.t = "read" THEN JudgeReader(r) ELSE JudgeWriter(r)), drift |-> Drift(r), keys |-> SetToSeq(StepKeys(r))]
Out == [i \in 1..Len(Rec) |-> Judge(Rec[i])]
ASSUME ndJsonSerialize(IOEnv.VERIF_OUT, Out)
=============================================================================
