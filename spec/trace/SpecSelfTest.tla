---------------------------- MODULE SpecSelfTest ----------------------------
(* Validation of the oracle itself (not a property check): streams produced by foreign encoders and by the grammar-directed     *)
(* producer, with the bytes / the verdict a foreign decoder (zlib, via Python) gives for them, are decoded by Deflate.tla +       *)
(* Wrappers.tla; the specification must agree on validity and, for valid streams, on every byte and on the end position.          *)
EXTENDS Wrappers, Json, IOUtils
In == ndJsonDeserialize(IOEnv.VERIF_IN)
Judge(r) ==
  LET ref == Unwrap(r.wrap, r.inp, r.dict)
      lenient == (IF "d" \in DOMAIN ref THEN ref.d.lenient ELSE FALSE) \/ (IF "lenient" \in DOMAIN ref.hdr THEN ref.hdr.lenient ELSE FALSE)
  IN [id |-> r.id, tag |-> ref.tag, class |-> ref.class, lenient |-> lenient, nout |-> Len(ref.out),
      agree |-> IF r.valid = 1 THEN ref.tag = "Valid" /\ ref.out = r.expect /\ ref.endByte = Len(r.inp) - r.slack
                ELSE ref.tag # "Valid" \/ lenient]
Out == [i \in 1..Len(In) |-> Judge(In[i])]
ASSUME ndJsonSerialize(IOEnv.VERIF_OUT, Out)
=============================================================================
