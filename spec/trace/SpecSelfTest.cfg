
