
