------------------------------ MODULE TraceC09 ------------------------------
(* C09, direction V: records from the real generators, the real gf_invert_matrix and the real  *)
(* erasure sweep are judged against EC.tla / GF256.tla.                                        *)
EXTENDS EC, Json, IOUtils, TLC
Rec == ndJsonDeserialize(IOEnv.VERIF_IN)
AsRows(flat, n, w) == TLCEval([i \in 1..n |-> TLCEval([j \in 1..w |-> flat[(i - 1) * w + j]])])

Judge(r) ==
  CASE r.t = "rs"     -> IF AsRows(r.a, r.m, r.k) = RsMatrix(r.m, r.k) THEN "ok" ELSE "generator-matrix-differs-from-documented-formula"
    [] r.t = "cauchy" -> IF AsRows(r.a, r.m, r.k) = Cauchy1(r.m, r.k) THEN "ok" ELSE "generator-matrix-differs-from-documented-formula"
    [] r.t = "inv"    -> LET A == AsRows(r.in, r.n, r.n)  s == Invert(A) IN
                         IF s.ok # (r.ret = 0) THEN (IF s.ok THEN "nonsingular-matrix-rejected" ELSE "singular-matrix-accepted")
                         ELSE IF r.ret = 0 /\ MatMul(A, AsRows(r.out, r.n, r.n)) # Identity(r.n) THEN "in-times-out-is-not-identity"
                         ELSE "ok"
    [] r.t = "sweep"  -> LET safe == IF r.gen = "cauchy" THEN r.m <= 256 ELSE RsSafe(r.m, r.k) IN
                         IF safe /\ r.bad # 0 THEN (IF r.fail_kind = 1 THEN "survivor-set-not-invertible" ELSE "rebuilt-block-differs")
                         ELSE "ok"
    [] OTHER -> "ok"
Verdicts == [i \in 1..Len(Rec) |-> Judge(Rec[i])]
BadIdx == {i \in 1..Len(Rec) : Verdicts[i] # "ok"}
Cnt(t) == Cardinality({i \in 1..Len(Rec) : Rec[i].t = t})
Result == [records |-> Len(Rec), gens |-> Cnt("rs") + Cnt("cauchy"), invs |-> Cnt("inv"), sweeps |-> Cnt("sweep"),
           singular_inputs |-> Cardinality({i \in 1..Len(Rec) : Rec[i].t = "inv" /\ Rec[i].ret # 0}),
           bad |-> [i \in 1..Len(SetToSeq(BadIdx)) |-> [idx |-> SetToSeq(BadIdx)[i], why |-> Verdicts[SetToSeq(BadIdx)[i]]]]]
ASSUME ndJsonSerialize(IOEnv.VERIF_OUT, <<Result>>)
=============================================================================
