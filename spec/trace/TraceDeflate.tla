---------------------------- MODULE TraceDeflate ----------------------------
(* Direction V for the compressor: one recorded scenario = parameters + the input bytes + one   *)
(* event per public call (isal_deflate / isal_deflate_stateless).  Every rule of the contract   *)
(* (DeflateStream.tla; DESIGN appendix B, D1-D10 / S1-S4) is evaluated after every call; at     *)
(* flush points and at END the accumulated output is decoded by Deflate.tla/Wrappers.tla and    *)
(* compared with the accumulated input.  The monitor reports every violated rule as            *)
(* <<call seq, rule id>>; it never compares compressed bytes with an expectation.               *)
EXTENDS Wrappers, Json, IOUtils

Scn == ndJsonDeserialize(IOEnv.VERIF_IN)
(* the per-call transition relation of the control state machine (DeflateStreamOps!CallEnds), tabulated by TLC from
   spec/gen/GenDeflateStream.tla: a set of <<state, staged, room, input, flush, eos, level0, end state, end staged>> *)
DsTab == IF "VERIF_DSTAB" \in DOMAIN IOEnv THEN ndJsonDeserialize(IOEnv.VERIF_DSTAB) ELSE <<>>
DsRel == TLCEval(UNION {{<<DsTab[i].b0, DsTab[i].t0, DsTab[i].room, DsTab[i].inp, DsTab[i].flush, DsTab[i].eos, DsTab[i].lvl0, DsTab[i].ends[j][1], DsTab[i].ends[j][2]>>
                            : j \in 1..Len(DsTab[i].ends)} : i \in 1..Len(DsTab)})
ModelStates == {DsTab[i].b0 : i \in 1..Len(DsTab)}

WrapName(w) == CASE w = 0 -> "raw" [] w = 1 -> "gzip" [] w = 2 -> "gzip_nohdr" [] w = 3 -> "zlib" [] w = 4 -> "zlib_nohdr" [] OTHER -> "raw"
HdrLen(w) == CASE w = 1 -> 10 [] w = 3 -> 2 [] OTHER -> 0
TrlLen(w) == CASE w \in {1, 2} -> 8 [] w \in {3, 4} -> 4 [] OTHER -> 0
(* one-shot output bound of the property: n + 5 per started 65535-byte stored block (min one) + wrapper *)
Bound(n, w) == n + 5 * MaxN(1, (n + 65534) \div 65535) + HdrLen(w) + TrlLen(w)
WBits(h) == IF h = 0 THEN 15 ELSE h

(* documented parameter domain *)
LevelOK(s) == s.level \in 0..3
FlushOK(s, f) == IF s.api = 1 THEN f \in {0, 2} ELSE f \in 0..2
LbufOK(s) == s.level = 0 \/ ~LevelOK(s) \/ s.lbuf \in 0..4 \/ s.lbuf \in 7..10      \* (7..10: documented sizes at unaligned addresses: no alignment is documented)
             \/ (s.api = 1 /\ s.level = 1 /\ s.lbuf = 5)   \* stateless level 1 may borrow the internal buffer
ParamsOK(s, f) == LevelOK(s) /\ FlushOK(s, f) /\ LbufOK(s)

(* decode what has been produced so far as a prefix of a stream (flush point judgement).  The decode is
   incremental: `dec` is the decoder state left by the previous flush point (or "none"), so every byte of
   the output is decoded once however many flush points a history has. *)
PrefixDecode(s, produced, dict, dec) ==
  IF dec.kind = "state" THEN [ok |-> TRUE, d |-> Resume(produced, dict, dec.st), hend |-> dec.hend]
  ELSE LET w == WrapName(s.wrap)  h == HeaderOf(w, produced)
       IN IF h.st # "ok" THEN [ok |-> FALSE, why |-> "wrapper-header-" \o h.st]
          ELSE [ok |-> TRUE, d |-> Decode(produced, dict, 8 * h.end), hend |-> h.end]
NoDec == [kind |-> "none"]

LastIsEmptyStored(d) == Len(d.blocks) > 0 /\ LET b == d.blocks[Len(d.blocks)] IN b.type = "stored" /\ b.outFrom = b.outTo /\ ~b.final

(* ---- streaming scenario ---- *)
(* accumulator: produced bytes, consumed count, violations, stall counter, full-flush points, flags *)
CallRules(s, acc, k) ==
  LET c == [s.calls[k] EXCEPT !.eos = IF @ # 0 THEN 1 ELSE 0]      \* end_of_stream is documented as "non-zero if this is the last input buffer"
      v0 == {}
      \* D1 / D2: accounting
      v1 == (IF c.c > c.ai \/ c.p > c.ao \/ (IF "outlen" \in DOMAIN c THEN c.outlen ELSE Len(c.out)) # c.p \/ c.touched_outside # 0 THEN {<<k, "D1-wrote-or-read-beyond-avail">>} ELSE {})
            \cup (IF c.dti # c.c \/ c.dto # c.p \/ c.dni # c.c \/ c.dno # c.p THEN {<<k, "D2-counters-disagree-with-pointers">>} ELSE {})
      \* D3: parameter validation before any effect
      \* (an invalid-parameter call may be injected mid-stream: bad = 1/4 invalid level, 2/3 missing / undersized level buffer, which only levels 1-3 need)
      bad == IF "bad" \in DOMAIN c THEN c.bad ELSE 0
      pok == ParamsOK(s, c.flush) /\ (bad = 0 \/ (bad \in {2, 3} /\ s.level = 0))
      v3 == IF pok /\ c.ret # 0 THEN {<<k, "D3-valid-parameters-rejected">>}
            ELSE IF ~pok /\ (c.ret >= 0 \/ c.c # 0 \/ c.p # 0) THEN {<<k, "D3-invalid-parameters-not-rejected-cleanly">>} ELSE {}
      produced == acc.produced \o c.out
      consumed == acc.consumed + c.c
      given == acc.given + (IF acc.pending = 0 THEN c.ai ELSE 0)       \* new input is handed over only when the previous chunk was used up
      \* D6: flush completion
      flushDone == pok /\ c.ret = 0 /\ c.flush \in {1, 2} /\ c.ai - c.c = 0 /\ c.ao - c.p > 0 /\ c.eos = 0
      pd == IF flushDone THEN PrefixDecode(s, produced, s.dict, acc.dec) ELSE [ok |-> FALSE, why |-> ""]
      v6 == IF ~flushDone THEN {}
            ELSE IF ~pd.ok THEN {<<k, "D6-" \o pd.why>>}
            ELSE LET d == pd.d IN
                 (IF d.tag = "Invalid" THEN {<<k, "D6-output-so-far-is-not-valid-deflate">>} ELSE {})
                 \cup (IF d.tag # "Invalid" /\ d.out # SubSeq(s.inp, 1, consumed) THEN {<<k, "D6-flush-complete-but-not-all-input-decodable">>} ELSE {})
                 \cup (IF d.tag # "Invalid" /\ ~(d.tag = "NeedMore" /\ d.atBoundary) THEN {<<k, "D6-flush-point-not-on-a-block-and-byte-boundary">>} ELSE {})
                 \cup (IF d.tag # "Invalid" /\ ~LastIsEmptyStored(d) THEN {<<k, "D6-flush-point-not-marked-by-empty-stored-block">>} ELSE {})
      fullPoints == IF flushDone /\ c.flush = 2 /\ v6 = {} THEN Append(acc.fullPoints, <<Len(produced), consumed>>) ELSE acc.fullPoints
      \* a FULL_FLUSH request that took all the input so far but ran out of output space stays pending: while every following call keeps
      \* asking for FULL_FLUSH, the marker the library writes for that input position is a full-flush point like any other, even when the
      \* call that completes it brings more input (midFull: input positions whose marker, if the stream has one, must cut the history)
      askFull == pok /\ c.ret = 0 /\ c.flush = 2
      fullSince == IF c.c > 0 THEN askFull ELSE acc.fullSince /\ askFull       \* every call since the last input was taken asked for FULL_FLUSH
      fullReq == fullSince /\ c.eos = 0 /\ c.ai - c.c = 0 /\ c.ao - c.p = 0 /\ given = consumed
      roomLeft == askFull /\ c.ao - c.p > 0
      midFull == IF roomLeft THEN acc.midFull \cup acc.pendFull ELSE acc.midFull
      pendFull == IF ~askFull \/ roomLeft THEN {} ELSE acc.pendFull \cup (IF fullReq THEN {consumed} ELSE {})
      \* D9 progress: a call that neither consumes nor produces although it has space and something to do
      idle == c.c = 0 /\ c.p = 0 /\ c.st = c.st0 /\ c.ao > 0 /\ (c.ai > 0 \/ c.eos = 1 \/ c.flush # 0) /\ c.st # "END" /\ c.ret = 0
             /\ ~(c.ai = 0 /\ c.eos = 0 /\ c.st = "NEW_HDR")       \* nothing pending: a flush request with no data and nothing buffered is a no-op
      stall == IF idle THEN acc.stall + 1 ELSE 0
      v9 == IF stall >= 2 THEN {<<k, "D9-no-progress-on-two-consecutive-calls">>} ELSE {}
      \* D4: END is absorbing
      v4 == IF acc.ended /\ (c.c # 0 \/ c.p # 0 \/ c.st # "END") THEN {<<k, "D4-call-after-END-had-an-effect">>} ELSE {}
      \* M1 (conformance with the control state machine DeflateStreamOps): the state the call returned in must be one the
      \* transcribed igzip.c machine can reach from the state it was entered in, for this flush / end_of_stream / room / input
      m1app == ~(Len(DsTab) = 0 \/ ~pok \/ c.ret # 0 \/ c.b0 \notin ModelStates \/ c.b1 \notin ModelStates)
               /\ ~(c.c = 0 /\ c.p = 0 /\ c.b0 = c.b1 /\ c.t0 = c.t1)                    \* nothing happened (no input, no request): not a step
      m1tup == <<c.b0, c.t0, IF c.ao = 0 THEN 0 ELSE IF c.ao < 8 THEN 1 ELSE 2, IF c.ai > 0 \/ acc.buffered > 0 THEN 1 ELSE 0,
                 c.flush, c.eos, IF s.level = 0 THEN 1 ELSE 0, c.b1, c.t1>>
      m1 == IF m1app /\ m1tup \notin DsRel THEN {<<k, "M1-state-transition-not-in-the-model">>} ELSE {}
      cov == IF m1app THEN acc.cov \cup {m1tup} ELSE acc.cov                              \* model transitions exercised (coverage of the relation)
      \* D11: installing a Huffman table is refused while a block is open (attempted after the call; 99 = not attempted)
      v11 == IF c.sh = 0 /\ c.st # "NEW_HDR" THEN {<<k, "D11-set_hufftables-accepted-while-a-block-is-open">>} ELSE {}
  IN [produced |-> produced, consumed |-> consumed, given |-> given, pending |-> c.ai - c.c, viol |-> acc.viol \cup v1 \cup v3 \cup v4 \cup v6 \cup v9 \cup v11,
      dec |-> IF flushDone /\ pd.ok /\ pd.d.tag = "NeedMore" THEN [kind |-> "state", st |-> pd.d.st, hend |-> pd.hend] ELSE acc.dec,
      stall |-> stall, fullPoints |-> fullPoints, midFull |-> midFull, pendFull |-> pendFull, fullSince |-> fullSince, ended |-> acc.ended \/ c.st = "END", flushJudged |-> acc.flushJudged + (IF flushDone THEN 1 ELSE 0),
      eosSeen |-> acc.eosSeen \/ c.eos = 1, buffered |-> c.bv - c.bp, drift |-> acc.drift \cup m1, cov |-> cov]

EndRules(s, acc) ==
  LET n == Len(s.calls)
      w == WrapName(s.wrap)
      wb == WBits(s.hist_bits)
      dictUsed == s.dict
  IN IF s.end.why = "fault" THEN [viol |-> acc.viol \cup {<<n, "C05-memory-fault-in-call">>}, stats |-> [nblocks |-> 0, match |-> FALSE, types |-> <<>>]]
     ELSE IF s.end.why \in {"cap", "stalled"} THEN [viol |-> acc.viol \cup {<<n, "D10-did-not-terminate-" \o s.end.why>>}, stats |-> [nblocks |-> 0, match |-> FALSE, types |-> <<>>]]
     ELSE IF s.end.why # "end" THEN [viol |-> acc.viol, stats |-> [nblocks |-> 0, match |-> FALSE, types |-> <<>>]]
     ELSE IF "nodecode" \in DOMAIN s /\ s.nodecode = 1 THEN [viol |-> acc.viol, stats |-> [nblocks |-> 0, match |-> FALSE, types |-> <<>>]]   \* memory-safety sweep: per-call rules only
     ELSE IF Len(s.dict_points) > 0 THEN
     \* D12: a dictionary installed after a completed FULL flush: the stream up to that point decodes on its own to the input
     \* so far, and the rest decodes, with the dictionary as preset history, to the rest of the input
     LET dp == s.dict_points[1]   zb == dp[1]   u == dp[2]
         hdr == HeaderOf(w, acc.produced)
         pre == IF hdr.st = "ok" THEN Decode(SubSeq(acc.produced, 1, zb), <<>>, 8 * hdr.end) ELSE [tag |-> "Invalid", out |-> <<>>, atBoundary |-> FALSE]
         sfx == Decode(acc.produced, s.dict, 8 * zb)
         tl == TrlLen(s.wrap)
         v12 == (IF ~(pre.tag = "NeedMore" /\ pre.atBoundary /\ pre.out = SubSeq(s.inp, 1, u)) THEN {<<n, "D12-stream-before-mid-stream-dictionary-not-a-complete-prefix">>} ELSE {})
                \cup (IF ~(sfx.tag = "Valid" /\ sfx.out = SubSeq(s.inp, u + 1, Len(s.inp)) /\ EndByte(sfx) + tl = Len(acc.produced))
                      THEN {<<n, "D12-data-after-mid-stream-dictionary-does-not-decode-with-it">>} ELSE {})
                \cup (IF sfx.tag = "Valid" /\ \E bi \in 1..Len(sfx.blocks) : sfx.blocks[bi].minRef < 0 - Len(s.dict) \/ sfx.blocks[bi].maxDist > P2(wb)
                      THEN {<<n, "D8-match-outside-window-or-dictionary">>} ELSE {})
     IN [viol |-> acc.viol \cup v12, stats |-> [nblocks |-> IF sfx.tag = "Valid" THEN Len(sfx.blocks) ELSE 0,
                                               match |-> sfx.tag = "Valid" /\ \E bi \in 1..Len(sfx.blocks) : sfx.blocks[bi].minRef < 0, types |-> <<>>]]
     ELSE
     LET pdz == PrefixDecode(s, acc.produced, dictUsed, acc.dec)
         u == IF ~pdz.ok THEN Unwrap(w, acc.produced, dictUsed)
              ELSE FinishUnwrap(w, acc.produced, IF w \in {"gzip", "zlib"} THEN HeaderOf(w, acc.produced) ELSE [st |-> "ok", end |-> 0], pdz.d)
         v5 == (IF ~acc.eosSeen \/ acc.consumed # Len(s.inp) THEN {<<n, "D5-END-reached-before-end-of-stream-and-all-input">>} ELSE {})
               \cup (IF u.tag # "Valid" THEN {<<n, "D5-final-stream-" \o u.tag \o "-" \o u.class>>}
                     ELSE (IF u.out # s.inp THEN {<<n, "D5-final-stream-decodes-to-different-bytes">>} ELSE {})
                          \cup (IF u.endByte # Len(acc.produced) THEN {<<n, "D5-trailing-garbage-after-stream">>} ELSE {}))
         blocks == IF u.tag = "Valid" THEN u.d.blocks ELSE <<>>
         hend == IF u.tag = "Valid" /\ w \in {"gzip", "zlib"} THEN u.hdr.end ELSE 0
         \* D7 independence after every completed full flush
         v7 == UNION {{<<n, "D7-match-reaches-back-across-full-flush-point">>} : fp \in
                 {fp \in {acc.fullPoints[i] : i \in 1..Len(acc.fullPoints)} :
                    \E bi \in 1..Len(blocks) : blocks[bi].startBit >= 8 * fp[1] /\ blocks[bi].minRef < fp[2]}}
         v7c == UNION {{<<n, "D7-match-reaches-back-across-full-flush-point-completed-with-more-input">>} : t \in
                 {t \in acc.midFull : \E bi \in 1..Len(blocks) :
                     /\ blocks[bi].type = "stored" /\ blocks[bi].outFrom = t /\ blocks[bi].outTo = t /\ ~blocks[bi].final
                     /\ \E bj \in 1..Len(blocks) : blocks[bj].startBit >= blocks[bi].endBit /\ blocks[bj].minRef < t}}
         \* the first full-flush suffix is also decoded in isolation
         v7b == IF Len(acc.fullPoints) = 0 \/ u.tag # "Valid" THEN {}
                ELSE LET fp == acc.fullPoints[1]
                         sfx == Decode(acc.produced, <<>>, 8 * fp[1])
                     IN IF sfx.tag = "Valid" /\ sfx.out = SubSeq(s.inp, fp[2] + 1, Len(s.inp)) THEN {} ELSE {<<n, "D7-suffix-after-full-flush-not-decodable-alone">>}
         \* D8 window / dictionary
         v8 == (IF \E bi \in 1..Len(blocks) : blocks[bi].maxDist > P2(wb) THEN {<<n, "D8-match-distance-exceeds-window">>} ELSE {})
               \cup (IF \E bi \in 1..Len(blocks) : blocks[bi].minRef < 0 - Len(dictUsed) THEN {<<n, "D8-match-before-start-of-data">>} ELSE {})
               \cup (IF u.tag = "Valid" /\ w = "zlib" /\ u.hdr.fields.info + 8 < wb THEN {<<n, "D8-zlib-CINFO-smaller-than-window">>} ELSE {})
     IN [viol |-> acc.viol \cup v5 \cup v7 \cup v7b \cup v7c \cup v8,
         stats |-> [nblocks |-> Len(blocks), match |-> \E bi \in 1..Len(blocks) : blocks[bi].maxDist > 0,
                    types |-> [bi \in 1..Len(blocks) |-> blocks[bi].type],
                    dictref |-> \E bi \in 1..Len(blocks) : blocks[bi].minRef < 0]]

JudgeStream(s) ==
  LET a0 == [produced |-> <<>>, consumed |-> 0, given |-> 0, pending |-> 0, viol |-> {}, stall |-> 0, fullPoints |-> <<>>, midFull |-> {}, pendFull |-> {}, fullSince |-> FALSE, ended |-> FALSE, flushJudged |-> 0, eosSeen |-> FALSE, dec |-> NoDec, buffered |-> 0, drift |-> {}, cov |-> {}]
      a == FoldLeft(LAMBDA acc, k : CallRules(s, acc, k), a0, Range1(Len(s.calls)))
      e == EndRules(s, a)
      v13 == {<<s.wrong_state_accepted[i], "D13-dictionary-call-accepted-in-a-wrong-state">> : i \in 1..Len(s.wrong_state_accepted)}
  IN [scn |-> s.scn, viol |-> SetToSeq(e.viol \cup v13), drift |-> SetToSeq(a.drift), cov |-> SetToSeq(a.cov), ncalls |-> Len(s.calls), produced |-> Len(a.produced), flush_points |-> a.flushJudged,
      full_points |-> Len(a.fullPoints), stats |-> e.stats]

(* ---- one-shot scenario (isal_deflate_stateless): rules S1-S4 ---- *)
JudgeOneShot(s) ==
  LET c == [s.calls[1] EXCEPT !.eos = IF @ # 0 THEN 1 ELSE 0]   n == Len(s.inp)   w == WrapName(s.wrap)   bnd == Bound(n, s.wrap)
      pok == ParamsOK(s, c.flush)
      v1 == (IF c.c > c.ai \/ c.p > c.ao \/ Len(c.out) # c.p \/ c.touched_outside # 0 THEN {<<1, "S1-wrote-or-read-beyond-avail">>} ELSE {})
            \cup (IF c.dti # c.c \/ c.dto # c.p \/ c.dni # c.c \/ c.dno # c.p THEN {<<1, "S1-counters-disagree-with-pointers">>} ELSE {})
      v3 == IF ~pok THEN (IF c.ret >= 0 \/ c.c # 0 \/ c.p # 0 THEN {<<1, "S1-invalid-parameters-not-rejected-cleanly">>} ELSE {})
            ELSE (IF c.ret \notin {0, -1} THEN {<<1, "S4-undocumented-return-code">>} ELSE {})
                 \cup (IF c.ao >= bnd /\ c.ret # 0 THEN {<<1, "S2-overflow-reported-although-space-meets-the-bound">>} ELSE {})
                 \cup (IF c.ret = 0 /\ c.p > bnd THEN {<<1, "S3-output-exceeds-the-bound">>} ELSE {})
                 \cup (IF c.ret = 0 /\ c.c # c.ai THEN {<<1, "S3-success-without-consuming-all-input">>} ELSE {})
      u == IF pok /\ c.ret = 0 /\ (c.flush = 0 \/ c.eos = 1) THEN Unwrap(w, c.out, <<>>) ELSE [tag |-> "skip"]    \* NO_FLUSH implies end of stream; FULL_FLUSH terminates only if the caller set end_of_stream
      v5 == IF u.tag = "skip" THEN {}
            ELSE IF u.tag # "Valid" THEN {<<1, "S3-success-with-" \o u.tag \o "-" \o u.class \o "-stream">>}
            ELSE (IF u.out # s.inp THEN {<<1, "S3-stream-decodes-to-different-bytes">>} ELSE {})
                 \cup (IF u.endByte # Len(c.out) THEN {<<1, "S3-trailing-garbage-after-stream">>} ELSE {})
                 \cup (IF \E bi \in 1..Len(u.d.blocks) : u.d.blocks[bi].maxDist > P2(WBits(s.hist_bits)) \/ u.d.blocks[bi].minRef < 0 THEN {<<1, "D8-match-outside-window">>} ELSE {})
                 \cup (IF w = "zlib" /\ u.hdr.fields.info + 8 < WBits(s.hist_bits) THEN {<<1, "D8-zlib-CINFO-smaller-than-window">>} ELSE {})
      \* FULL_FLUSH one-shot (raw): byte aligned, unterminated, all input decodable
      \* (the property states this for raw deflate only; wrapped one-shot output with FULL_FLUSH is not judged beyond S1/S2/S4)
      f == IF pok /\ c.ret = 0 /\ c.flush = 2 /\ c.eos = 0 /\ s.wrap = 0 THEN PrefixDecode(s, c.out, <<>>, NoDec) ELSE [ok |-> FALSE, why |-> "skip"]
      v6 == IF ~(pok /\ c.ret = 0 /\ c.flush = 2 /\ c.eos = 0 /\ s.wrap = 0) THEN {}
            ELSE IF ~f.ok THEN {<<1, "S3-" \o f.why>>}
            ELSE (IF f.d.tag = "NeedMore" /\ f.d.atBoundary /\ f.d.out = s.inp THEN {} ELSE {<<1, "S3-full-flush-output-not-an-aligned-unterminated-prefix">>})
      blocks == IF u.tag = "Valid" THEN u.d.blocks ELSE <<>>
  IN [scn |-> s.scn, viol |-> SetToSeq(v1 \cup v3 \cup v5 \cup v6), ncalls |-> 1, produced |-> c.p, flush_points |-> 0, full_points |-> 0,
      stats |-> [nblocks |-> Len(blocks), match |-> \E bi \in 1..Len(blocks) : blocks[bi].maxDist > 0, types |-> [bi \in 1..Len(blocks) |-> blocks[bi].type]]]

(* ---- appended one-shot outputs (api 9, assembled by the driver from two recorded one-shot calls): the
   concatenation of a FULL_FLUSH raw output and a following terminated output must be one valid stream ---- *)
JudgeConcat(s) ==
  LET c == s.calls[1]  u == Unwrap("raw", c.out, <<>>)
      v == IF u.tag # "Valid" THEN {<<1, "S3-appended-one-shot-outputs-are-" \o u.tag \o "-" \o u.class>>}
           ELSE (IF u.out # s.inp THEN {<<1, "S3-appended-one-shot-outputs-decode-to-different-bytes">>} ELSE {})
                \cup (IF u.endByte # Len(c.out) THEN {<<1, "S3-trailing-garbage-after-stream">>} ELSE {})
  IN [scn |-> s.scn, viol |-> SetToSeq(v), ncalls |-> 1, produced |-> Len(c.out), flush_points |-> 0, full_points |-> 0,
      stats |-> [nblocks |-> IF u.tag = "Valid" THEN Len(u.d.blocks) ELSE 0, match |-> FALSE, types |-> <<>>]]

Judge(s) == IF Len(s.calls) = 0 THEN [scn |-> s.scn, viol |-> <<<<0, IF s.end.why = "fault" THEN "C05-memory-fault-in-call" ELSE "harness-recorded-no-call">>>>, ncalls |-> 0, produced |-> 0, flush_points |-> 0, full_points |-> 0,
                                       stats |-> [nblocks |-> 0, match |-> FALSE, types |-> <<>>]]
            ELSE IF s.api = 9 THEN JudgeConcat(s) ELSE IF s.api = 1 THEN JudgeOneShot(s) ELSE JudgeStream(s)
Out == [i \in 1..Len(Scn) |-> Judge(Scn[i])]
ASSUME ndJsonSerialize(IOEnv.VERIF_OUT, Out)
=============================================================================
