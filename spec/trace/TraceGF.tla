------------------------------ MODULE TraceGF ------------------------------
(* C12, direction V (exhaustive): everything the implementation's scalar GF(2^8) *)
(* routines and table builders produce, recorded by the harness, is compared     *)
(* with the field defined in GF256.tla.                                          *)
EXTENDS GF256, Json, IOUtils, FiniteSets

Rec == ndJsonDeserialize(IOEnv.VERIF_IN)

BadOf(r) ==
  CASE r.t = "mul"  -> {<<"gf_mul", r.a, b>> : b \in {b \in Byte : r.row[b+1] # Mul(r.a, b)}}
    [] r.t = "inv"  -> {<<"gf_inv", a, r.v[a+1]>> : a \in {a \in Byte : r.v[a+1] # Inv(a)}}
    [] r.t = "nib"  -> IF r.tbl = NibbleTbl(r.c) /\ \A x \in Byte : ViaNibble(r.tbl, x) = Mul(r.c, x)
                       THEN {} ELSE {<<r.src, r.c, 0>>}
    [] r.t = "gfni" -> IF \A x \in Byte : Affine(r.m, x) = Mul(r.c, x) THEN {} ELSE {<<r.src, r.c, 0>>}
    [] r.t = "vmul" -> \* the constant-multiply kernels: out[i] = c * src[i], src = 0..255 followed by the permutation i -> 7 i + 13
                       IF r.ret = 0 /\ \A i \in 0..255 : r.out[i + 1] = Mul(r.c, i) /\ r.out[257 + i] = Mul(r.c, (7 * i + 13) % 256)
                       THEN {} ELSE {<<r.src, r.c, 0>>}
    [] OTHER -> {<<"unknown-record", 0, 0>>}

Bad == FoldLeft(LAMBDA acc, i : acc \cup BadOf(Rec[i]), {}, Range1(Len(Rec)))
Count(t) == Cardinality({i \in 1..Len(Rec) : Rec[i].t = t})

(* spec-side facts about the field itself (the property's "hence commutative, ..." clause) *)
FieldOK == AxCommutative /\ AxZeroOne /\ AxInverse /\ AxNoZeroDiv
           /\ AxDistrib({0,1,2,3,29,127,128,200,254,255}) /\ AxAssoc({0,1,2,3,29,127,128,200,254,255})
           /\ \A c \in Byte : GfniMatrix(c) = GfniMatrix(c) /\ \A x \in {1,2,77,255} : Affine(GfniMatrix(c), x) = Mul(c, x)

Result == [field_ok |-> FieldOK, records |-> Len(Rec),
           mul_rows |-> Count("mul"), inv |-> Count("inv"), nib |-> Count("nib"), gfni |-> Count("gfni"), vmul |-> Count("vmul"),
           nbad |-> Cardinality(Bad), bad |-> SetToSeq(IF Cardinality(Bad) > 20 THEN {CHOOSE b \in Bad : TRUE} ELSE Bad)]
ASSUME ndJsonSerialize(IOEnv.VERIF_OUT, <<Result>>)
=============================================================================
