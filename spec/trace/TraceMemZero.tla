---------------------------- MODULE TraceMemZero ----------------------------
(* C20: aggregated exhaustive sweep recorded by the harness, judged against MemZero.tla: for a     *)
(* region of len bytes, IsZero holds for the all-zero content and fails for every content with a  *)
(* single non-zero byte, so per placement exactly len positions must be reported non-zero and the *)
(* all-zero region must be reported zero; no access may fault.                                    *)
EXTENDS MemZero, Json, IOUtils, TLC, SequencesExt, FiniteSets
Rec == ndJsonDeserialize(IOEnv.VERIF_IN)
(* spec self-check: the aggregate really is what IsZero implies, on small regions *)
SpecOK == \A n \in 0..6 : /\ IsZero([i \in 1..n |-> 0])
                          /\ \A t \in 1..n : ~IsZero([i \in 1..n |-> IF i > n - t THEN 255 ELSE 0])
                          /\ Cardinality({p \in 1..n : ~IsZero([i \in 1..n |-> IF i = p THEN 255 ELSE 0])}) = ExpectedNonZeroPositions(n)
IsHuge(r) == "huge" \in DOMAIN r     \* summary of the cases with len > 2^32 (IsZero has no length limit)
Bad(r) == IF IsHuge(r) THEN r.correct # r.cases \/ r.faults # 0 ELSE
          \/ r.zero_wrong # 0 \/ r.faults # 0
          \/ r.positions # r.placements * ExpectedNonZeroPositions(r.len)
          \/ r.detected # r.positions
          \/ r.dense_detected # r.dense             \* contents with many non-zero bytes (dense tails, the whole region) are non-zero too
BadIdx == {i \in 1..Len(Rec) : Bad(Rec[i])}
Result == [spec_ok |-> SpecOK, records |-> Len(Rec), nbad |-> Cardinality(BadIdx),
           bad |-> [i \in 1..Len(SetToSeq(BadIdx)) |-> Rec[SetToSeq(BadIdx)[i]]],
           positions |-> FoldLeft(LAMBDA a, i : a + (IF IsHuge(Rec[i]) THEN 0 ELSE Rec[i].positions \div 1000), 0, [i \in 1..Len(Rec) |-> i])]
ASSUME ndJsonSerialize(IOEnv.VERIF_OUT, <<Result>>)
=============================================================================
