
