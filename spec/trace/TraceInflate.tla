---------------------------- MODULE TraceInflate ----------------------------
(* Direction G/V for the decompressor: the stream fed to isal_inflate / isal_inflate_stateless is  *)
(* first judged by the specification (Ref == Unwrap(...), Deflate.tla + Wrappers.tla); then every  *)
(* recorded call must be a step the contract InflateStream allows given Ref (rules I1-I6 of         *)
(* DESIGN appendix B): bytes delivered are the next bytes of Ref.out, only documented codes,        *)
(* FINISH only for a stream the spec accepts, with everything delivered, the checksum exposed in    *)
(* the state equal to the spec's, and the reported input position equal to the true end.            *)
EXTENDS Wrappers, Json, IOUtils
Scn == ndJsonDeserialize(IOEnv.VERIF_IN)

(* the per-call transition relation of the control state machine (InflateStreamOps!CallResults), tabulated by TLC from
   spec/gen/GenInflateStream.tla: <<block_state, wrapper parsed, output staged, input buffered, input offered, room offered, mode>> -> results *)
IsTab == IF "VERIF_ISTAB" \in DOMAIN IOEnv THEN ndJsonDeserialize(IOEnv.VERIF_ISTAB) ELSE <<>>
IsRel == TLCEval(UNION {{<<IsTab[i].bs0, IsTab[i].wf0, IsTab[i].pend0, IsTab[i].buf0, IsTab[i].inp, IsTab[i].room, IsTab[i].mode>> \o IsTab[i].ends[j]
                            : j \in 1..Len(IsTab[i].ends)} : i \in 1..Len(IsTab)})
(* after an error return only the fact that the model allows an error from this entry state is compared (the parked state is not relied upon) *)
IsErr == TLCEval({SubSeq(t, 1, 7) : t \in {t \in IsRel : t[12] = "ERR"}})
RetClass(r) == IF r < 0 THEN "ERR" ELSE IF r = 6 THEN "NEED_DICT" ELSE "OK"      \* ISAL_NEED_DICT = 6

(* crc_flag -> container the spec must parse / verify *)
RefWrap(m) == CASE m = 1 -> "gzip" [] m = 3 -> "zlib" [] m = 5 -> "zlib_nohdr" [] m = 6 -> "gzip_nohdr" [] OTHER -> "raw"
ChecksumKind(m) == CASE m \in {1, 2, 6} -> "crc32" [] m \in {3, 4, 5} -> "adler32" [] OTHER -> "none"
Documented(api) == IF api = 3 THEN {0, 1, 2, 6, -1, -2, -3, -4, -5, -6} ELSE {0, 6, -1, -2, -3, -4, -5, -6}
CodeOf(class) == CASE class = "block" -> -1 [] class = "symbol" -> -2 [] class = "lookback" -> -3 [] class = "wrapper" -> -4
                   [] class = "method" -> -5 [] class = "checksum" -> -6 [] OTHER -> 0
IsPrefixOf(a, b) == Len(a) <= Len(b) /\ a = SubSeq(b, 1, Len(a))

(* a record groups all runs (one-shot / streaming schedules / decode kernels) of the SAME stream in the same
   mode, so the reference decode is computed once: g = [wrap, inp, dict, runs], run = [scn, api, calls, end, ...] *)
JudgeRun(g, s, ref) ==
  LET \* a decoder told that the window is 2^hist_bits (1..14) may refuse a stream with a longer distance; whatever it accepts must still be right
      maxd == IF "d" \in DOMAIN ref THEN FoldLeft(LAMBDA m, b : MaxN(m, b.maxDist), 0, ref.d.blocks) ELSE 0
      overWindow == "hist_bits" \in DOMAIN s /\ s.hist_bits \in 1..14 /\ maxd > P2(s.hist_bits)
      lenient == (IF "d" \in DOMAIN ref THEN ref.d.lenient ELSE FALSE) \/ (IF "lenient" \in DOMAIN ref.hdr THEN ref.hdr.lenient ELSE FALSE) \/ overWindow
      ncalls == Len(s.calls)
      step(acc, k) ==
        LET c == s.calls[k]
            \* bytes handed over so far are compared incrementally: dok = every chunk so far equals the next bytes of the reference decode
            dlen == acc.dlen + Len(c.out)
            dok == acc.dok /\ dlen <= Len(ref.out) /\ (Len(c.out) = 0 \/ c.out = SubSeq(ref.out, acc.dlen + 1, dlen))
            \* after a negative (error) return the input counters are not relied upon (no property constrains them; the guard pages
            \* of the harness still catch any real access outside the buffers); writing beyond avail_out is never allowed
            v1 == (IF (c.ret >= 0 /\ c.c > c.ai) \/ c.p > c.ao \/ c.touched_outside # 0 THEN {<<k, "I1-wrote-or-read-beyond-avail">>} ELSE {})
                  \cup (IF c.ret >= 0 /\ (Len(c.out) # c.p \/ c.dto # c.p) THEN {<<k, "I1-total_out-disagrees-with-pointer-advance">>} ELSE {})
            \* bytes handed over by a call that reports no error must be the next bytes of the reference decode (what a call
            \* returns together with an error code is not relied upon: the property only constrains reported success)
            v2 == IF c.ret >= 0 /\ ~dok THEN {<<k, "I2-delivered-bytes-differ-from-reference-decode">>} ELSE {}
            v3 == (IF c.ret \notin Documented(s.api) THEN {<<k, "I3-undocumented-return-code">>} ELSE {})
                  \cup (IF c.ret < 0 /\ ref.tag = "Valid" /\ ~lenient THEN {<<k, "I3-valid-stream-rejected">>} ELSE {})
                  \cup (IF c.ret = 6 /\ ~(RefWrap(g.wrap) = "zlib" /\ ref.hdr.st = "ok" /\ ref.hdr.fields.dict_flag) THEN {<<k, "I3-dictionary-requested-without-FDICT">>} ELSE {})
            fin == c.bs = "FINISH" /\ c.ret >= 0      \* completion reported as success (an error code with the state parked in FINISH is a report, not a success)
            v4 == IF ~fin THEN {}
                  \* (`lenient` only lets the implementation REJECT what the RFC does not clearly forbid; success always needs a stream the spec decodes)
                  ELSE (IF ref.tag # "Valid" THEN {<<k, "I4-finished-a-stream-the-spec-rejects-" \o ref.tag \o "-" \o ref.class>>} ELSE {})
                       \cup (IF ref.tag = "Valid" /\ ~(dok /\ dlen = Len(ref.out)) THEN {<<k, "I4-finished-with-different-output">>} ELSE {})
                       \cup (IF ref.tag = "Valid" /\ c.fed - c.ain - (c.ril \div 8) # ref.endByte THEN {<<k, "I4-reported-input-position-is-not-the-end-of-stream">>} ELSE {})
                       \cup (IF ref.tag = "Valid" /\ ChecksumKind(g.wrap) = "crc32" /\ <<c.crc_lo, c.crc_hi>> # Crc32(ref.out) THEN {<<k, "I4-state-crc-differs-from-CRC32-of-output">>} ELSE {})
                       \cup (IF ref.tag = "Valid" /\ ChecksumKind(g.wrap) = "adler32" /\ <<c.crc_lo, c.crc_hi>> # Adler32(ref.out) THEN {<<k, "I4-state-crc-differs-from-Adler32-of-output">>} ELSE {})
            idle == c.c = 0 /\ c.p = 0 /\ c.ai > 0 /\ c.ao > 0 /\ c.ret = 0 /\ ~fin
            stall == IF idle THEN acc.stall + 1 ELSE 0
            v6 == IF stall >= 2 THEN {<<k, "I6-no-progress-with-input-and-space-available">>} ELSE {}
            v7 == IF acc.finished /\ (c.p # 0 \/ ~fin) THEN {<<k, "I4-call-after-FINISH-had-an-effect">>} ELSE {}
            \* M2 (conformance with the control state machine InflateStreamOps): the state the streaming call returned in must be one the
            \* transcribed igzip_inflate.c machine can reach from the state it was entered in (reported as drift, not as a violation)
            m2app == Len(IsTab) > 0 /\ s.api = 2 /\ "bs0" \in DOMAIN c
            m2key == <<c.bs0, c.wf0, c.pnd0, c.buf0, IF c.ai > 0 THEN 1 ELSE 0, IF c.ao > 0 THEN 1 ELSE 0, g.wrap>>
            m2tup == m2key \o <<c.bs, c.wf, c.pnd, c.buf, RetClass(c.ret), IF c.ain > 0 THEN 1 ELSE 0, IF c.p > 0 THEN 1 ELSE 0>>
            m2 == IF ~m2app THEN {} ELSE IF c.ret < 0 THEN (IF m2key \in IsErr THEN {} ELSE {<<k, "M2-error-return-not-in-the-model">>})
                  ELSE IF m2tup \in IsRel THEN {} ELSE {<<k, "M2-state-transition-not-in-the-model">>}
            cov == IF m2app /\ c.ret >= 0 THEN acc.cov \cup {m2tup} ELSE acc.cov
            vx == IF s.expect_ret # 0 /\ ref.tag = "Invalid" /\ c.ret < 0 /\ c.ret # s.expect_ret THEN {<<k, "I3-wrong-error-class-for-single-fault">>} ELSE {}
        IN [dlen |-> dlen, dok |-> dok, viol |-> acc.viol \cup v1 \cup v2 \cup v3 \cup v4 \cup v6 \cup v7 \cup vx, stall |-> stall, finished |-> acc.finished \/ fin,
            sawerr |-> acc.sawerr \/ c.ret < 0, space_short |-> acc.space_short \/ (c.ret = 2), drift |-> acc.drift \cup m2, cov |-> cov]
      a == FoldLeft(step, [dlen |-> 0, dok |-> TRUE, viol |-> {}, stall |-> 0, finished |-> FALSE, sawerr |-> FALSE, space_short |-> FALSE, drift |-> {}, cov |-> {}], Range1(ncalls))
      \* I5 completion: a valid stream, fully supplied, with space always offered, must finish
      v5 == IF s.end.why = "fault" THEN {<<ncalls, "C05-memory-fault-in-call">>}
            ELSE IF s.end.why = "stalled" THEN {<<ncalls, "I6-no-progress-with-input-and-space-available">>}
            \* (a stream the RFC does not clearly forbid may be REFUSED - with an error code; accepting it without ever finishing is not a refusal)
            ELSE IF ref.tag = "Valid" /\ (~lenient \/ ~a.sawerr) /\ ~a.finished /\ ~a.space_short /\ s.complete_supply
                 THEN {<<ncalls, "I5-valid-stream-not-finished-" \o s.end.why>>} ELSE {}
      \* an invalid single-fault stream must be reported, with the documented class (only when the spec agrees that the producer's
      \* injected fault made the stream invalid: shortening a code of an incomplete set can leave a perfectly valid stream)
      v8 == IF s.expect_ret # 0 /\ ref.tag = "Invalid" /\ ~a.sawerr /\ s.complete_supply /\ ~a.space_short THEN {<<ncalls, "I3-injected-fault-not-reported">>} ELSE {}
  IN [scn |-> s.scn, viol |-> SetToSeq(a.viol \cup v5 \cup v8), drift |-> SetToSeq(a.drift), cov |-> SetToSeq(a.cov), ref |-> ref.tag, class |-> ref.class, lenient |-> lenient, finished |-> a.finished,
      nout |-> Len(ref.out), delivered |-> a.dlen,
      nblocks |-> IF "d" \in DOMAIN ref THEN Len(ref.d.blocks) ELSE 0,
      types |-> IF "d" \in DOMAIN ref THEN [i \in 1..Len(ref.d.blocks) |-> ref.d.blocks[i].type] ELSE <<>>,
      maxdist |-> IF "d" \in DOMAIN ref THEN FoldLeft(LAMBDA m, b : MaxN(m, b.maxDist), 0, ref.d.blocks) ELSE 0]
Judge(g) == LET ref == Unwrap(RefWrap(g.wrap), g.inp, g.dict) IN [i \in 1..Len(g.runs) |-> JudgeRun(g, g.runs[i], ref)]
Out == FoldLeft(LAMBDA acc, i : acc \o Judge(Scn[i]), <<>>, Range1(Len(Scn)))
ASSUME ndJsonSerialize(IOEnv.VERIF_OUT, Out)
=============================================================================
