---------------------------- MODULE DeflateStreamOps --------------------------
(* The control state machine of the streaming compressor, igzip.c: one operator per function   *)
(* of the implementation (write_header, the body/finish kernels, create_icf_block_hdr,          *)
(* flush_icf_block, write_stored_block, sync_flush, flush_write_buffer, write_trailer, the      *)
(* level-0 and ICF passes, and isal_deflate_int with its 16-byte staging buffer and TMP_ shadow *)
(* states).  Data is abstracted away; what is kept is                                           *)
(*   st    the ZSTATE_* value (without the TMP_ offset)                                          *)
(*   tmp   TRUE iff staged output is pending in tmp_out_buff (the TMP_ shadow states)            *)
(*   room  output space class: 0 none, 1 fewer than 8 bytes, 2 at least 8 bytes                  *)
(*   inp   1 iff the pass still has input to process (caller's or buffered), 0 otherwise         *)
(* Every function is a set-valued operator (all outcomes the real function can have for some     *)
(* data): a write may use up any amount of room, a kernel may stop because its buffer is full.   *)
(* The same operators give (a) the Next relation model-checked by TLC (safety: END and the        *)
(* trailer only after end_of_stream) and (b) the per-call relation CallEnds used to validate     *)
(* recorded call histories of the real library (TraceDeflate: rule M1 "state transition not      *)
(* possible in the model").  Termination is NOT decided on this model: with the data abstracted  *)
(* away a write may stay in its state for any number of calls; it is decided per recorded call   *)
(* (TraceDeflate D9: no two consecutive calls without consuming or producing; D10: END reached) *)
(* together with the bound on total output (C10).                                               *)
EXTENDS Naturals, FiniteSets, TLC

States == {"NEW_HDR", "HDR", "CREATE_HDR", "BODY", "FLUSH_READ_BUFFER", "FLUSH_ICF_BUFFER", "TYPE0_HDR", "TYPE0_BODY",
           "SYNC_FLUSH", "FLUSH_WRITE_BUFFER", "TRL", "END"}
Rooms == 0..2
Less(r) == 0..r                      \* room classes a write starting with class r can end in
(* a micro state of one pass *)
M(st, room, inp) == [st |-> st, room |-> room, inp |-> inp]
Set(m, st, rooms, inps) == {M(st, r, i) : r \in rooms, i \in inps}

(* ---- the functions of igzip.c, each: micro state -> set of micro states; p = [flush, eos, lvl0] ---- *)
Flushing(p) == p.eos \/ p.flush # 0

WriteHeader(m, next, p) ==            \* write_header(): partial byte copy with any room, final bits need >= 8 bytes
  IF m.room = 0 THEN {M("HDR", 0, m.inp)}
  ELSE Set(m, "HDR", Less(m.room) \ {2}, {m.inp}) \cup (IF m.room = 2 THEN Set(m, next, Rooms, {m.inp}) ELSE {})

Body0(m, p) ==                        \* isal_deflate_body (level 0)
  IF m.inp = 0 THEN {M(IF Flushing(p) THEN "FLUSH_READ_BUFFER" ELSE "BODY", m.room, 0)}
  ELSE (IF Flushing(p) THEN {M("FLUSH_READ_BUFFER", m.room, 1)} ELSE {})            \* no more than the look-ahead left: handed to the finish routine untouched,
       \cup                                                                         \* whatever the room (the body loop is not entered, so the room is not looked at)
       (IF m.room < 2 THEN {m}
        ELSE Set(m, IF Flushing(p) THEN "FLUSH_READ_BUFFER" ELSE "BODY", Rooms, {0, 1})  \* input taken (all, or all but the look-ahead)
             \cup Set(m, "BODY", {0, 1}, {1}))                                      \* output full first
Finish0(m, p) ==                      \* isal_deflate_finish (level 0): rest of the input + end-of-block symbol
  IF m.room < 2 THEN {m}
  ELSE Set(m, IF p.eos THEN "TRL" ELSE "SYNC_FLUSH", Rooms, {0}) \cup Set(m, "FLUSH_READ_BUFFER", {0, 1}, {m.inp})
SyncFlush(m, p) == IF m.room < 2 THEN {m} ELSE Set(m, "NEW_HDR", Rooms, {m.inp})
FlushWriteBuffer(m, p) == IF m.room < 2 THEN {m} ELSE Set(m, "NEW_HDR", Rooms, {m.inp})
WriteTrailer(m, p) == IF m.room < 2 THEN {m} ELSE Set(m, "END", Rooms, {m.inp}) \cup Set(m, "TRL", Rooms, {m.inp})

IcfBody(m, p) ==                      \* isal_deflate_icf_body: fills the token buffer, needs no output room
  IF m.inp = 0 THEN {M(IF Flushing(p) THEN "FLUSH_READ_BUFFER" ELSE "BODY", m.room, 0)}
  ELSE Set(m, "CREATE_HDR", {m.room}, {0, 1}) \cup {M(IF Flushing(p) THEN "FLUSH_READ_BUFFER" ELSE "BODY", m.room, 0)}
IcfFinish(m, p) ==                    \* isal_deflate_icf_finish
  IF m.inp = 0 THEN {M(IF Flushing(p) THEN "CREATE_HDR" ELSE "FLUSH_READ_BUFFER", m.room, 0)}
  ELSE Set(m, "CREATE_HDR", {m.room}, {0, 1})
CreateHdr(m, p) ==                    \* create_icf_block_hdr: stored block, buffered header, or header written in place
  {M("TYPE0_HDR", m.room, m.inp), M("HDR", m.room, m.inp)} \cup (IF m.room = 2 THEN Set(m, "FLUSH_ICF_BUFFER", Rooms, {m.inp}) ELSE {})
FlushIcf(m, p) ==                     \* flush_icf_block
  IF m.room < 2 THEN {m}
  ELSE Set(m, "FLUSH_ICF_BUFFER", {0, 1}, {m.inp})
       \cup Set(m, IF m.inp = 0 /\ p.eos THEN "TRL" ELSE IF m.inp = 0 /\ p.flush # 0 THEN "SYNC_FLUSH" ELSE "NEW_HDR", Rooms, {m.inp})
Stored(m, p) ==                       \* write_stored_block (type-0 header(s) and body)
  IF m.room = 0 THEN {m}
  ELSE Set(m, "TYPE0_HDR", Less(m.room), {m.inp}) \cup Set(m, "TYPE0_BODY", Less(m.room), {0, 1})
       \cup Set(m, "NEW_HDR", Less(m.room), {0, 1}) \cup (IF p.eos THEN Set(m, "TRL", Less(m.room), {0}) ELSE {})

(* the tail shared by both passes *)
Tail(S, p) ==
  LET s1 == UNION {IF m.st = "SYNC_FLUSH" THEN SyncFlush(m, p) ELSE {m} : m \in S}
      s2 == UNION {IF m.st = "FLUSH_WRITE_BUFFER" THEN FlushWriteBuffer(m, p) ELSE {m} : m \in s1}
  IN UNION {IF m.st = "TRL" THEN WriteTrailer(m, p) ELSE {m} : m \in s2}
Pass0(m, p) ==                        \* isal_deflate_pass
  LET s0 == IF m.st \in {"NEW_HDR", "HDR"} THEN WriteHeader(m, "BODY", p) ELSE {m}
      s1 == UNION {IF x.st = "BODY" THEN Body0(x, p) ELSE {x} : x \in s0}
      s2 == UNION {IF x.st = "FLUSH_READ_BUFFER" THEN Finish0(x, p) ELSE {x} : x \in s1}
  IN Tail(s2, p)
IcfRound(m, p) ==                     \* one trip through the do-while body of isal_deflate_icf_pass
  LET s0 == IF m.st = "NEW_HDR" THEN {M("BODY", m.room, m.inp)} ELSE {m}
      s1 == UNION {IF x.st = "BODY" THEN IcfBody(x, p) ELSE {x} : x \in s0}
      s2 == UNION {IF x.st = "FLUSH_READ_BUFFER" THEN IcfFinish(x, p) ELSE {x} : x \in s1}
      s3 == UNION {IF x.st = "CREATE_HDR" THEN CreateHdr(x, p) ELSE {x} : x \in s2}
      s4 == UNION {IF x.st = "HDR" THEN WriteHeader(x, "FLUSH_ICF_BUFFER", p) ELSE {x} : x \in s3}
      s5 == UNION {IF x.st = "FLUSH_ICF_BUFFER" THEN FlushIcf(x, p) ELSE {x} : x \in s4}
  IN UNION {IF x.st \in {"TYPE0_HDR", "TYPE0_BODY"} THEN Stored(x, p) ELSE {x} : x \in s5}
RECURSIVE IcfLoop(_, _, _)
IcfLoop(S, p, n) ==                   \* do { ... } while (state == NEW_HDR); bounded: each round consumes input or room
  LET again == {m \in S : m.st = "NEW_HDR"}  rest == S \ again IN
  IF again = {} \/ n = 0 THEN S
  ELSE rest \cup IcfLoop(UNION {IcfRound(m, p) : m \in again}, p, n - 1)
PassIcf(m, p) == Tail(IcfLoop(IcfRound(m, p), p, 4), p)
Pass(m, p) == IF p.lvl0 THEN Pass0(m, p) ELSE PassIcf(m, p)

(* ---- isal_deflate_int: drain staged output, pass, (repaired) second pass, staging pass ---- *)
(* result records: [st, tmp, room, inp] *)
R(st, tmp, room, inp) == [st |-> st, tmp |-> tmp, room |-> room, inp |-> inp]
IntCall(st0, tmp0, room0, inp0, p) ==
  LET \* 1. drain tmp_out_buff
      drained == IF ~tmp0 THEN {[m |-> M(st0, room0, inp0), stop |-> FALSE]}
                 ELSE IF room0 = 0 THEN {}
                 ELSE {[m |-> M(st0, r, inp0), stop |-> (r = 0 \/ st0 = "END")] : r \in Less(room0)}
      stillTmp == IF tmp0 THEN {R(st0, TRUE, 0, inp0)} ELSE {}
      stopped == {R(d.m.st, FALSE, d.m.room, d.m.inp) : d \in {d \in drained : d.stop}}
      go == {d.m : d \in {d \in drained : ~d.stop}}
      \* 2. the pass, and once more if it only finished a pending flush and stopped at a block boundary with input and room left
      p1 == UNION {Pass(m, p) : m \in go}
      p2 == UNION {IF m.st = "NEW_HDR" /\ m.inp = 1 /\ m.room > 0 THEN Pass(m, p) ELSE {m} : m \in p1}
      \* 3. fewer than 8 bytes of room left and not at a block boundary: run the pass into the 16-byte staging buffer
      plain == {R(m.st, FALSE, m.room, m.inp) : m \in {m \in p2 : ~(m.room = 1 /\ m.st # "NEW_HDR")}}
      staged == UNION {{R(x.st, t, IF t THEN 0 ELSE r, x.inp) : t \in BOOLEAN, r \in {0, 1}} \cup {R(x.st, FALSE, 1, x.inp)}
                        : x \in UNION {Pass(M(m.st, 2, m.inp), p) : m \in {m \in p2 : m.room = 1 /\ m.st # "NEW_HDR"}}}
  IN stillTmp \cup stopped \cup plain \cup staged

(* ---- isal_deflate: the buffering loop may run isal_deflate_int several times in one API call ---- *)
RECURSIVE ApiIter(_, _, _)
ApiIter(S, p, n) ==
  IF n = 0 THEN S
  ELSE S \cup ApiIter(UNION {IF r.room > 0 /\ r.inp = 1 THEN IntCall(r.st, r.tmp, r.room, r.inp, p) ELSE {} : r \in S}, p, n - 1)
(* possible (st, tmp) at the return of one isal_deflate call *)
(* isal_deflate's buffering layer: with NO_FLUSH and no end of stream a small amount of new input is only copied into the
   internal buffer and isal_deflate_int is not entered at all *)
BufferOnly(st0, tmp0, room0, inp0, p) == IF p.flush = 0 /\ ~p.eos /\ inp0 = 1 THEN {R(st0, tmp0, room0, 1)} ELSE {}
CallResults(st0, tmp0, room0, inp0, p) == ApiIter(IntCall(st0, tmp0, room0, inp0, p), p, 3) \cup BufferOnly(st0, tmp0, room0, inp0, p)
CallEnds(st0, tmp0, room0, inp0, p) == {<<r.st, r.tmp>> : r \in CallResults(st0, tmp0, room0, inp0, p)}

=============================================================================
