---------------------------- MODULE InflateStream ----------------------------
(* The streaming decompressor as a state machine for TLC: the environment (caller) makes isal_inflate calls, *)
(* each time offering output room or not and handing over the next piece of input or not; the library's      *)
(* response is any result InflateStreamOps!CallResults allows.  After an error return the caller stops.      *)
EXTENDS InflateStreamOps

CONSTANT Mode
VARIABLES bs, wf, pend, buf, held, more, dead, lastRet
vars == <<bs, wf, pend, buf, held, more, dead, lastRet>>
(* held: 1 iff the caller's avail_in is still > 0 from an earlier call; more: pieces of input the caller still has *)
Init == bs = "NEW_HDR" /\ wf = FALSE /\ pend = FALSE /\ buf = FALSE /\ held = 0 /\ more = 3 /\ dead = FALSE /\ lastRet = "OK"
Call(room, give) ==
  /\ ~dead
  /\ (give => more > 0 /\ held = 0)
  /\ LET inp == IF give \/ held = 1 THEN 1 ELSE 0
     IN \E r \in CallResults(bs, wf, pend, buf, inp, room, Mode) :
          bs' = r.bs /\ wf' = r.wf /\ pend' = r.pend /\ buf' = r.buf /\ held' = r.left /\ dead' = (r.ret = "ERR") /\ lastRet' = r.ret
  /\ more' = (IF give THEN more - 1 ELSE more)
Next == \E room \in 0..1, give \in BOOLEAN : Call(room, give)
Spec == Init /\ [][Next]_vars

TypeOK == bs \in BStates /\ wf \in BOOLEAN /\ pend \in BOOLEAN /\ held \in 0..1
(* every decoded byte has been handed over before the stream is reported finished *)
FinishClean == bs = "FINISH" => ~pend
(* wrapper-header resume states only before the wrapper is parsed, and only in the modes that have a header *)
HeaderStatesOnlyBeforeBody == bs \in (BStates \ (BodyStates \cup {"FINISH", "CHECKSUM_CHECK"})) => ~wf /\ HasHeader(Mode)
(* the trailer is read only in the verifying modes *)
TrailerOnlyWhenVerifying == bs = "CHECKSUM_CHECK" => Verifies(Mode)
(* a dictionary is requested only by a zlib header *)
NeedDictOnlyZlib == lastRet = "NEED_DICT" => Mode = "ZLIB" /\ wf /\ bs = "NEW_HDR"
(* action properties: the wrapper is parsed once; FINISH is absorbing; in a verifying mode FINISH is entered through the trailer check *)
WrapperOnce == [][wf => wf']_vars
FinishAbsorbing == [][bs = "FINISH" => bs' = "FINISH" /\ pend' = pend /\ buf' = buf]_vars
(* the stream cannot be finished out of nothing: FINISH needs input to have been handed over (3 = the initial number of pieces) *)
FinishNeedsInput == bs = "FINISH" => more < 3
=============================================================================
