------------------------------ MODULE HashWindow ------------------------------
(* The match finders' position arithmetic.  Hash-table entries are positions modulo M (65536 in the code); the candidate for the  *)
(* byte at position p is ALWAYS looked at, at distance dist = ((p - entry - 1) mod M) mod W + 1 (W = 2^w, the window: the code    *)
(* masks, it does not compare), so every candidate lies in [p - W, p - 1] and the only question is whether that is inside the     *)
(* referencable history.  The very first byte after a start without history is emitted as a literal without a look-up.  What the *)
(* entry of a hash that has NOT been seen since the last (re)start denotes depends on how the table was initialised:             *)
(*   reset_match_history          entries := total_in            (dist = 0 at the first byte: never dereferenced)               *)
(*   isal_deflate_hash (set_dict) entries := total_in - 1        (the last dictionary byte; the code wrote 0xFFFF, which is     *)
(*                                                               the same thing only when total_in = 0: defect 16)              *)
(*   isal_deflate_reset_dict      table prepared at position 0 (unseen = -1, dictionary = -len + i), then += total_in           *)
(*                                                               (the += was missing: defect 10)                                *)
(* History that may be referenced starts at `base` (stream start, the last completed FULL flush, or the start of the            *)
(* dictionary).  Safety: no dereference below base.  The model is small (M, W constants), positions are unbounded naturals      *)
(* (bounded by a constraint), two hash buckets stand for all of them.                                                           *)
EXTENDS Naturals, TLC

CONSTANTS M, W, MaxPos, Variant      \* Variant: "fixed" | "defect16" (set_dict init 0xFFFF) | "defect10" (reset_dict without += total) | "seedC17d" (history reset seeded with the buffered amount)
ASSUME W < M /\ M % W = 0
Bucket == {1, 2}
VARIABLES total, base, h, buffered, first, dictAt0
vars == <<total, base, h, buffered, first, dictAt0>>

Mod(x) == x % M
(* entry value for an absolute position that may be "before zero" (total - 1 at total = 0 is M - 1) *)
Rel(total_, back) == Mod(total_ + M * 4 - back)

Init == total = 0 /\ base = 0 /\ h = [b \in Bucket |-> 0] /\ buffered = 0 /\ first = TRUE /\ dictAt0 = 0

(* one byte at position `total` is hashed into bucket b: the candidate is looked at, then the entry is replaced *)
Dist(b) == (Mod(total + 2 * M - h[b] - 1) % W) + 1
Deref(b) == ~first
Step(b) == /\ total < MaxPos
           /\ h' = [h EXCEPT ![b] = Mod(total)] /\ total' = total + 1 /\ first' = FALSE /\ UNCHANGED <<dictAt0, base, buffered>>
(* input handed over in small pieces is only buffered; the first byte is compressed later (total_in already counts the buffered bytes) *)
Buffer(n) == /\ total = base /\ buffered = 0 /\ n \in 1..(W - 1) /\ total + n <= MaxPos
             /\ buffered' = n /\ UNCHANGED <<dictAt0, total, base, h, first>>
StartAfterBuffering ==     \* isal_deflate with has_hist = IGZIP_NO_HIST: reset_match_history with total_in minus the buffered amount
             /\ buffered > 0
             /\ h' = [b \in Bucket |-> Mod(IF Variant = "seedC17d" THEN total + buffered ELSE total)]
             /\ buffered' = 0 /\ first' = TRUE /\ UNCHANGED <<dictAt0, total, base>>
FullFlush == /\ buffered = 0 /\ base' = total /\ h' = [b \in Bucket |-> Mod(total)] /\ first' = TRUE /\ UNCHANGED <<dictAt0, total, buffered>>
SetDict(len) ==            \* isal_deflate_set_dict at a block boundary with nothing referencable before (stream start or just after a full flush)
             /\ buffered = 0 /\ base = total /\ len \in 1..W
             /\ LET unseen == IF Variant = "defect16" THEN M - 1 ELSE Rel(total, 1) IN
                \E seen \in SUBSET Bucket, off \in 0..(len - 1) :      \* some buckets get a dictionary position, the others keep the initial value
                   h' = [b \in Bucket |-> IF b \in seen THEN Rel(total, len - off) ELSE unseen]
             /\ base' = total - (IF len <= total THEN len ELSE 0) /\ (len <= total \/ total = 0) /\ first' = FALSE /\ dictAt0' = (IF total = 0 THEN len ELSE dictAt0)
             /\ UNCHANGED <<total, buffered>>
ResetDict(len) ==          \* pre-processed dictionary: table built at position 0, then moved to the current position
             /\ buffered = 0 /\ base = total /\ len \in 1..W /\ (len <= total \/ total = 0)
             /\ \E seen \in SUBSET Bucket, off \in 0..(len - 1) :
                   h' = [b \in Bucket |-> LET at0 == IF b \in seen THEN Rel(0, len - off) ELSE Rel(0, 1)
                                          IN IF Variant = "defect10" THEN at0 ELSE Mod(at0 + total)]
             /\ base' = total - (IF len <= total THEN len ELSE 0) /\ first' = FALSE /\ dictAt0' = (IF total = 0 THEN len ELSE dictAt0)
             /\ UNCHANGED <<total, buffered>>
Next == \/ \E b \in Bucket : buffered = 0 /\ Step(b)
        \/ \E n \in 1..(W - 1) : Buffer(n)
        \/ StartAfterBuffering \/ FullFlush
        \/ \E len \in 1..W : SetDict(len) \/ ResetDict(len)
Spec == Init /\ [][Next]_vars

(* SAFETY: whatever bucket the next byte hashes to, its candidate lies inside the referencable history (a dictionary installed at the
   very start of the stream sits below position 0: dictAt0 is its length) *)
DerefInsideHistory ==
  buffered = 0 => \A b \in Bucket : Deref(b) => (total >= Dist(b) /\ total - Dist(b) >= base) \/ (total < Dist(b) /\ Dist(b) - total <= dictAt0)
=============================================================================
