------------------------------- MODULE MemZero -------------------------------
EXTENDS Naturals, Sequences
(* isal_zero_detect(mem,len) returns 0 iff all len bytes are zero; bytes outside do not matter *)
IsZero(bytes) == \A i \in 1..Len(bytes) : bytes[i] = 0
(* expected aggregate for the exhaustive sweep: for a region of length n with a single non-zero
   byte, the number of positions that must be reported non-zero is n; the all-zero region is zero *)
ExpectedNonZeroPositions(n) == n
=============================================================================
