------------------------------ MODULE Dispatch ------------------------------
(* C16: the run-time dispatcher.  A CPU configuration assigns every bit any resolver examines  *)
(* (CPUID.1:ECX/EAX, CPUID.7:EBX/ECX, XCR0).  Configs is the set of architecturally consistent  *)
(* (dependency-closed) configurations, built constructively.  Avail(c) is the set of ISA        *)
(* extensions software may execute under c (CPUID bit AND the OS-enabled register state the     *)
(* encoding class needs).  The resolver macros of include/multibinary.asm and the hand-written  *)
(* resolvers are transcribed as decision procedures returning the argument slot they select.    *)
EXTENDS Naturals, Sequences, FiniteSets, TLC

G1Bits == {"dq", "cd", "bw", "vl"}
G2Bits == {"vbmi2", "gfni", "vaes", "vpclmul", "vnni", "bitalg", "vpopcnt"}

(* ---- closure rules (each named; listed in the evidence) ---- *)
(* R1 SSE4.2 => SSE4.1 => SSE3          (sse level 0..3)                                   *)
(* R2 (dropped: PCLMULQDQ is independent of SSE4.1)  R3 AVX => SSE4.2     R4 AVX2 => AVX     *)
(* R5 AVX512F => AVX2                   R6 DQ,CD,BW,VL => F       R7 VBMI2,BITALG => BW    *)
(* R8 VNNI,VPOPCNTDQ => F               R9 VPCLMULQDQ => PCLMULQDQ /\ AVX   R10 VAES => AVX *)
(* R11 GFNI => SSE4.2 (ships only on SSE4.2+ cores)                                         *)
(* R12 XCR0 state: none | SSE | SSE+AVX | SSE+AVX+(opmask,ZMM_Hi256,Hi16_ZMM); any state => OSXSAVE; *)
(*     XCR0.AVX => CPUID.AVX; XCR0.ZMM group => AVX512F (the three bits are set together)   *)
(* R13 unexamined extensions ride with the examined bit of their generation:                *)
(*     SSSE3 with SSE4.1, POPCNT with SSE4.2, BMI1/BMI2/LZCNT/MOVBE with AVX2               *)
AllowedG2(clmul, avx, f, g1, sse) ==
  {b \in G2Bits : /\ (b \in {"vbmi2", "bitalg"} => "bw" \in g1)
                  /\ (b \in {"vnni", "vpopcnt"} => f)
                  /\ (b = "vpclmul" => clmul /\ avx)
                  /\ (b = "vaes" => avx)
                  /\ (b = "gfni" => sse = 3)}
Configs ==
  UNION { UNION { UNION { UNION {
    { [sse |-> sse, clmul |-> clmul, osx |-> osx, avx |-> avx, avoton |-> avoton, avx2 |-> avx2, f |-> f,
       g1 |-> g1, g2 |-> g2, xcr |-> xcr] :
        g2 \in SUBSET AllowedG2(clmul, avx, f, g1, sse),
        xcr \in {x \in 0..3 : (x > 0 => osx) /\ (x >= 2 => avx) /\ (x = 3 => f)} }
    : g1 \in (IF f THEN SUBSET G1Bits ELSE {{}}) }
    : f \in (IF avx2 THEN BOOLEAN ELSE {FALSE}) }
    : avx2 \in (IF avx THEN BOOLEAN ELSE {FALSE}) }
    : sse \in 0..3, clmul \in BOOLEAN, osx \in BOOLEAN, avx \in BOOLEAN, avoton \in BOOLEAN }
ClosedBase(c) == (c.avx => c.sse = 3)
ClosedConfigs == {c \in Configs : ClosedBase(c)}

(* ---- what may be executed ---- *)
VexOK(c)  == c.osx /\ c.xcr >= 2
EvexOK(c) == c.osx /\ c.xcr = 3
Avail(c) ==
     (IF c.sse >= 1 THEN {"SSE3"} ELSE {})
  \cup (IF c.sse >= 2 THEN {"SSSE3", "SSE4_1"} ELSE {})
  \cup (IF c.sse >= 3 THEN {"SSE4_2", "POPCNT"} ELSE {})
  \cup (IF c.clmul THEN {"PCLMULQDQ"} ELSE {})
  \cup (IF "gfni" \in c.g2 THEN {"GFNI"} ELSE {})
  \cup (IF c.avx /\ VexOK(c) THEN {"AVX"} ELSE {})
  \cup (IF c.avx2 /\ VexOK(c) THEN {"AVX2", "BMI1", "BMI2", "LZCNT", "MOVBE"} ELSE {})
  \cup (IF "vpclmul" \in c.g2 /\ VexOK(c) THEN {"VPCLMULQDQ"} ELSE {})
  \cup (IF "vaes" \in c.g2 /\ VexOK(c) THEN {"VAES"} ELSE {})
  \cup (IF c.f /\ EvexOK(c) THEN {"AVX512F"} \cup
          {CASE b = "dq" -> "AVX512DQ" [] b = "cd" -> "AVX512CD" [] b = "bw" -> "AVX512BW" [] b = "vl" -> "AVX512VL" : b \in c.g1} \cup
          {CASE b = "vbmi2" -> "AVX512VBMI2" [] b = "vnni" -> "AVX512VNNI" [] b = "bitalg" -> "AVX512BITALG" [] b = "vpopcnt" -> "AVX512VPOPCNTDQ" [] OTHER -> "AVX512F"
             : b \in c.g2}
        ELSE {})

(* ---- register images handed to the intercepted CPUID / XGETBV (all < 2^31; EBX of leaf 7 split) ---- *)
B(x, v) == IF x THEN v ELSE 0
C1Ecx(c) == B(c.sse >= 1, 1) + B(c.clmul, 2) + B(c.sse >= 2, 512 + 524288) + B(c.sse >= 3, 1048576 + 8388608)
            + B(c.osx, 134217728) + B(c.avx, 268435456)
C1Eax(c) == IF c.avoton THEN 263888 + 8 ELSE 591594          \* 0x406D8 (Avoton) vs 0x906EA
C7EbxLo(c) == B(c.avx2, 32 + 8 + 256)                         \* AVX2 + BMI1 + BMI2
C7EbxHi(c) == B(c.f, 1) + B("dq" \in c.g1, 2) + B("cd" \in c.g1, 4096) + B("bw" \in c.g1, 16384) + B("vl" \in c.g1, 32768)
C7Ecx(c) == B("vbmi2" \in c.g2, 64) + B("gfni" \in c.g2, 256) + B("vaes" \in c.g2, 512) + B("vpclmul" \in c.g2, 1024)
            + B("vnni" \in c.g2, 2048) + B("bitalg" \in c.g2, 4096) + B("vpopcnt" \in c.g2, 16384)
Xcr0(c) == 1 + B(c.xcr >= 1, 2) + B(c.xcr >= 2, 4) + B(c.xcr = 3, 224)

(* ---- the resolvers, transcribed.  Result = index of the macro argument selected (2 = first kernel argument) ---- *)
XmmYmm(c) == c.xcr >= 2
G1All(c) == c.f /\ c.g1 = G1Bits
G2All(c) == c.g2 = G2Bits
AVX2G2(c) == {"gfni", "vaes", "vpclmul"} \subseteq c.g2
(* executes XGETBV? (must only happen with OSXSAVE set) *)
Init4(c) ==      \* mbin_dispatch_init: 2 = SSE base, 3 = AVX, 4 = AVX2
  IF ~(c.avx /\ c.osx) THEN 2 ELSE IF ~XmmYmm(c) THEN 2 ELSE IF c.avx2 THEN 4 ELSE 3
Init5(c) ==
  LET s == IF c.sse = 3 THEN 3 ELSE 2 IN
  IF ~(c.avx /\ c.osx) THEN s ELSE IF ~XmmYmm(c) THEN 3 ELSE IF c.avx2 THEN 5 ELSE 4
Init6(c) ==
  IF c.sse < 3 THEN 2 ELSE IF ~c.osx THEN 3 ELSE IF ~XmmYmm(c) THEN 3 ELSE IF ~c.avx THEN 3
  ELSE IF ~c.avx2 THEN 4 ELSE IF c.xcr # 3 THEN 5 ELSE IF G1All(c) THEN 6 ELSE 5
Init7(c) ==      \* as written: the G2 cmove is not nested under the G1 test (no entry point uses this macro any more)
  IF c.sse < 3 THEN 2 ELSE IF ~c.osx THEN 3 ELSE IF ~XmmYmm(c) THEN 3 ELSE IF ~c.avx THEN 3
  ELSE IF ~c.avx2 THEN 4 ELSE IF c.xcr # 3 THEN 5 ELSE IF G2All(c) THEN 7 ELSE IF G1All(c) THEN 6 ELSE 5
Init8(c) ==
  IF c.sse < 3 THEN 2 ELSE IF ~c.osx THEN 3 ELSE IF ~XmmYmm(c) THEN 3 ELSE IF ~c.avx THEN 3
  ELSE IF ~c.avx2 THEN 4
  ELSE IF c.xcr # 3 THEN (IF AVX2G2(c) THEN 7 ELSE 5)
  ELSE IF ~G1All(c) THEN 5 ELSE IF G2All(c) THEN 8 ELSE 6
InitClmul(c) ==
  IF c.sse < 2 \/ ~c.clmul THEN 2 ELSE IF ~c.osx THEN 3 ELSE IF ~XmmYmm(c) THEN 3 ELSE IF ~c.avx THEN 3
  ELSE IF ~c.avx2 THEN 4 ELSE IF c.xcr # 3 THEN 4 ELSE IF ~G1All(c) THEN 4 ELSE IF G2All(c) THEN 5 ELSE 4
Select(macro, c) ==
  CASE macro = "mbin_dispatch_init" -> Init4(c) [] macro = "mbin_dispatch_init2" -> 2
    [] macro = "mbin_dispatch_init5" -> Init5(c) [] macro = "mbin_dispatch_init6" -> Init6(c)
    [] macro = "mbin_dispatch_init7" -> Init7(c) [] macro = "mbin_dispatch_init8" -> Init8(c)
    [] macro = "mbin_dispatch_init_clmul" -> InitClmul(c)
XgetbvExecuted(macro, c) ==
  CASE macro \in {"mbin_dispatch_init", "mbin_dispatch_init5"} -> c.avx /\ c.osx
    [] macro = "mbin_dispatch_init2" -> FALSE
    [] macro = "mbin_dispatch_init_clmul" -> c.sse >= 2 /\ c.clmul /\ c.osx
    [] OTHER -> c.sse = 3 /\ c.osx

(* ---- the property ---- *)
(* req: the set of extensions the selected implementation (and everything it calls) uses *)
SelectionSafe(c, req) == req \subseteq Avail(c)
XgetbvSafe(c, executed) == executed => c.osx
=============================================================================
