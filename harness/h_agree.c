/* C16 ("whatever implementation is selected, observable results are identical"): one digest of results obtained through the PUBLIC,
 * dispatched entry points only - checksums, parity (tables from ec_init_tables + ec_encode_data + ec_encode_data_update), RAID P/Q and
 * checks, zero-detect answers, decompressed bytes of a compress/decompress round trip, inflate of a fixed foreign stream.  The program is
 * linked against the re-assembled resolvers and run once per simulated CPU level (VERIF_CPU); the digests must be equal (TraceEqual.tla).
 * Compressed bytes are not part of the digest: kernels of different levels may legitimately choose different matches. */
#include <stdio.h>
#include <stdlib.h>
#include <string.h>
#include <stdint.h>
#include "igzip_lib.h"
#include "crc.h"
#include "crc64.h"
#include "erasure_code.h"
#include "raid.h"
#include "mem_routines.h"

static FILE *o;
static int first = 1;
static void
put(uint64_t x)
{
        fprintf(o, first ? "%llu" : ",%llu", (unsigned long long) (x & 0xffffffffffffull));
        first = 0;
        if (x >> 48)
                fprintf(o, ",%llu", (unsigned long long) (x >> 48));
}
static void
putb(const unsigned char *p, size_t n)
{
        size_t i;
        for (i = 0; i < n; i++)
                put(p[i]);
}

int
main(int argc, char **argv)
{
        static unsigned char d[70000], comp[90000], back[70000];
        static const int lens[] = { 0, 1, 7, 13, 15, 16, 17, 24, 31, 32, 33, 63, 64, 65, 100, 127, 128, 144, 200, 255, 256, 272, 400, 513, 1040, 3096, 4112, 5553, 6168, 11105, 65536 };
        static const int eclens[] = { 1, 13, 15, 16, 24, 29, 31, 32, 45, 63, 64, 77, 96, 160, 173, 256, 1000 };
        unsigned i, li;
        uint32_t x = 99;
        o = fopen(argv[1], "w");
        if (!o)
                return 3;
        fprintf(o, "{\"digest\":[");
        for (i = 0; i < sizeof(d); i++) {
                x = x * 1664525u + 1013904223u;
                d[i] = (i % 1000 < 500) ? (unsigned char) (x >> 24) : "agreement across instruction sets "[i % 34];
        }
        /* checksums */
        for (li = 0; li < sizeof(lens) / sizeof(lens[0]); li++) {
                int n = lens[li];
                unsigned char *p = d + (li % 7);
                put(crc16_t10dif(0x1234, p, n));
                put(crc32_ieee(0x89abcdef, p, n));
                put(crc32_gzip_refl(0x13572468, p, n));
                put(crc32_iscsi(p, n, 0xfedcba98));
                put(crc64_ecma_refl(1, p, n));
                put(crc64_ecma_norm(2, p, n));
                put(crc64_iso_refl(3, p, n));
                put(crc64_iso_norm(4, p, n));
                put(crc64_jones_refl(5, p, n));
                put(crc64_jones_norm(6, p, n));
                put(crc64_rocksoft_refl(7, p, n));
                put(crc64_rocksoft_norm(8, p, n));
                put(isal_adler32(0xfff0fff0 % 65521 | ((0xfff0 % 65521) << 16), p, n));
                if (n <= 4200) {
                        put(crc16_t10dif_copy(7, back, p, n));
                        put(memcmp(back, p, n) != 0);
                }
                put(isal_zero_detect(p, n) != 0);
                memset(back, 0, n);
                if (n > 3)
                        back[n - 2] = 0x40;
                put(isal_zero_detect(back, n) != 0);
        }
        /* zero detection: every length up to 300, one non-zero byte at the first, the last and every 5th position (as one bit mask per length) */
        {
                static unsigned char zb[400];
                int n, pos;
                for (n = 0; n <= 300; n++) {
                        uint64_t acc = isal_zero_detect(zb + (n % 5), n) != 0;
                        for (pos = 0; pos < n; pos += (pos == 0 || pos + 5 < n - 1) ? ((pos % 5) ? 5 - pos % 5 : 5) : 1) {
                                zb[(n % 5) + pos] = (unsigned char) (1 << (pos % 8));
                                acc = acc * 3 + (isal_zero_detect(zb + (n % 5), n) != 0);
                                zb[(n % 5) + pos] = 0;
                        }
                        put(acc);
                }
        }
        /* erasure code through the public entry points: tables, encode, update; k = 10 sources, up to 14 parity rows */
        for (li = 0; li < sizeof(eclens) / sizeof(eclens[0]); li++) {
                int len = eclens[li], k = 10, rows, r, j;
                unsigned char a[24 * 10], tbl[32 * 10 * 14], *src[10], *par[14];
                static unsigned char pb[14][1024], ub[14][1024];
                for (rows = 1; rows <= 14; rows += (rows < 7 ? 1 : 3)) {
                        gf_gen_cauchy1_matrix(a, k + rows, k);
                        a[k * k + 1] = 0; /* a zero coefficient too */
                        ec_init_tables(k, rows, &a[k * k], tbl);
                        for (j = 0; j < k; j++)
                                src[j] = d + 1000 * j + li;
                        for (r = 0; r < rows; r++) {
                                par[r] = pb[r];
                                memset(pb[r], 0x5a, len);
                                memset(ub[r], 0, len);
                        }
                        ec_encode_data(len, k, rows, tbl, src, par);
                        for (r = 0; r < rows; r++)
                                putb(pb[r], len < 40 ? len : 40), put(pb[r][len - 1]);
                        for (r = 0; r < rows; r++)
                                par[r] = ub[r];
                        for (j = 0; j < k; j++)
                                ec_encode_data_update(len, k, rows, (j * 7) % k, tbl, src[(j * 7) % k], par);
                        for (r = 0; r < rows; r++)
                                put(memcmp(ub[r], pb[r], len) != 0);
                }
        }
        {
                unsigned char t[32], out1[288] __attribute__((aligned(32)));
                gf_vect_mul_init(0x8e, t);
                put(gf_vect_mul(256, t, d + 64, out1));
                putb(out1, 32);
                put(gf_mul(0x53, 0xca));
                put(gf_inv(0x53));
        }
        /* RAID */
        {
                static unsigned char bufs[8][4096] __attribute__((aligned(64)));
                void *arr[8];
                int n, j;
                static const int rl[] = { 32, 64, 96, 128, 160, 256, 1024, 4096 };
                for (li = 0; li < 8; li++) {
                        n = rl[li];
                        for (j = 0; j < 6; j++) {
                                memcpy(bufs[j], d + 5000 * j, n);
                                arr[j] = bufs[j];
                        }
                        arr[6] = bufs[6];
                        arr[7] = bufs[7];
                        put(pq_gen(8, n, arr));
                        putb(bufs[6], 16), putb(bufs[7], 16), put(bufs[6][n - 1]), put(bufs[7][n - 1]);
                        put(pq_check(8, n, arr));
                        bufs[2][n - 1] ^= 0x20;
                        put(pq_check(8, n, arr) != 0);
                        bufs[2][n - 1] ^= 0x20;
                        put(xor_gen(7, n, arr));
                        putb(bufs[6], 16), put(bufs[6][n - 1]);
                        put(xor_check(7, n, arr));
                        bufs[0][0] ^= 0x02;
                        put(xor_check(7, n, arr) != 0);
                }
        }
        /* deflate -> inflate round trips (the decompressed bytes are the observable result), every level, three wrappers */
        {
                int level, w;
                static unsigned char lb[ISAL_DEF_LVL3_DEFAULT];
                static const int gz[3] = { IGZIP_DEFLATE, IGZIP_GZIP, IGZIP_ZLIB }, cf[3] = { ISAL_DEFLATE, ISAL_GZIP, ISAL_ZLIB };
                for (level = 0; level < 4; level++)
                        for (w = 0; w < 3; w++) {
                                struct isal_zstream z;
                                struct inflate_state st;
                                int n = 30000 + 1111 * level, r1, r2;
                                isal_deflate_init(&z);
                                z.level = level;
                                z.level_buf = lb;
                                z.level_buf_size = sizeof(lb);
                                z.gzip_flag = gz[w];
                                z.next_in = d + level;
                                z.avail_in = n;
                                z.end_of_stream = 1;
                                z.next_out = comp;
                                z.avail_out = sizeof(comp);
                                r1 = isal_deflate(&z);
                                isal_inflate_init(&st);
                                st.crc_flag = cf[w];
                                st.next_in = comp;
                                st.avail_in = z.total_out;
                                st.next_out = back;
                                st.avail_out = sizeof(back);
                                r2 = isal_inflate(&st);
                                put(r1), put(r2), put(st.total_out), put(st.block_state == ISAL_BLOCK_FINISH), put(memcmp(back, d + level, n) != 0);
                                put(isal_adler32(1, back, st.total_out));
                        }
        }
        fprintf(o, "]}\n");
        fclose(o);
        return 0;
}
