/* C20: exhaustive sweep of the zero-detect routine: every variant x len 0..N x alignment x position
 * of a single non-zero byte (values 0x01,0x80,0xFF rotating), with 0xFF neighbours outside the region
 * and the region flush against inaccessible pages.  Results are logged as aggregates per (variant,len)
 * and compared with spec/MemZero.tla by TLC. */
#include "vh.h"
#include "mem_routines.h"
#define W __attribute__((weak))
typedef int (*zfn)(void *, size_t);
extern int mem_zero_detect_base(void *, size_t) W;
extern int mem_zero_detect_sse(void *, size_t) W;
extern int mem_zero_detect_avx(void *, size_t) W;
extern int mem_zero_detect_avx2(void *, size_t) W;
extern int mem_zero_detect_avx512(void *, size_t) W;
static struct { const char *name; zfn f; } fns[] = { { "isal_zero_detect", isal_zero_detect }, { "mem_zero_detect_base", mem_zero_detect_base },
        { "mem_zero_detect_sse", mem_zero_detect_sse }, { "mem_zero_detect_avx", mem_zero_detect_avx }, { "mem_zero_detect_avx2", mem_zero_detect_avx2 },
        { "mem_zero_detect_avx512", mem_zero_detect_avx512 } };

int
main(int argc, char **argv)
{
        FILE *out = fopen(argv[1], "w");
        int N = atoi(argv[2]), len, a, pos;
        unsigned f;
        struct vh_region r;
        static const unsigned char vals[3] = { 0x01, 0x80, 0xFF };
        if (!out)
                return 3;
        vh_init((size_t) 1 << 36);
        r = vh_region_new(N + 1024);
        for (f = 0; f < sizeof(fns) / sizeof(fns[0]); f++) {
                if (!fns[f].f)
                        continue;
                for (len = 0; len <= N; len++) {
                        long placements = 0, zero_wrong = 0, positions = 0, detected = 0, faults = 0, dense = 0, dense_detected = 0;
                        int dense_bad = -1;
                        int firstbad_a = -1, firstbad_pos = -1;
                        int naligns = len < 200 ? 66 : 10;
                        for (a = 0; a < naligns; a++) {
                                /* a = 0: end flush against the trailing inaccessible page; a = 1: start flush against the
                                 * leading one; otherwise interior at alignment (a-2) (or a spread of 8 for large len) */
                                unsigned char *p = a == 0 ? vh_place(&r, len, VH_END, 0) : a == 1 ? vh_place(&r, len, VH_START, 0)
                                                   : vh_place(&r, len, VH_MID, len < 200 ? a - 2 : ((a - 2) * 9 + len) % 64);
                                int ret = 0;
                                memset(r.lo, 0xFF, r.hi - r.lo);
                                memset(p, 0, len);
                                placements++;
                                VH_TRY { ret = fns[f].f(p, len); }
                                VH_CATCH { ret = -999; faults++; }
                                VH_DONE;
                                if (ret != 0) {
                                        zero_wrong++;
                                        if (firstbad_a < 0) { firstbad_a = a; firstbad_pos = -1; }
                                }
                                /* dense contents: many non-zero bytes at once (whole region; only the last 16/32/64/128 bytes; 0x01 everywhere) */
                                if (len > 0) {
                                        static const int tails[6] = { 0, 128, 64, 32, 16, 0 };
                                        int d;
                                        for (d = 0; d < 6; d++) {
                                                int t = tails[d] == 0 || tails[d] > len ? len : tails[d];
                                                memset(p + len - t, d == 5 ? 0x01 : d == 3 ? 0x80 : 0xFF, t);
                                                dense++;
                                                VH_TRY { ret = fns[f].f(p, len); }
                                                VH_CATCH { ret = 0; faults++; }
                                                VH_DONE;
                                                if (ret != 0)
                                                        dense_detected++;
                                                else if (dense_bad < 0)
                                                        dense_bad = a * 8 + d;
                                                memset(p, 0, len);
                                        }
                                }
                                for (pos = 0; pos < len; pos++) {
                                        p[pos] = vals[(pos + a + len) % 3];
                                        positions++;
                                        VH_TRY { ret = fns[f].f(p, len); }
                                        VH_CATCH { ret = 0; faults++; }
                                        VH_DONE;
                                        if (ret != 0)
                                                detected++;
                                        else if (firstbad_a < 0) { firstbad_a = a; firstbad_pos = pos; }
                                        p[pos] = 0;
                                }
                        }
                        fprintf(out, "{\"fn\":\"%s\",\"len\":%d,\"placements\":%ld,\"zero_wrong\":%ld,\"positions\":%ld,\"detected\":%ld,\"faults\":%ld,\"bad_a\":%d,\"bad_pos\":%d,\"dense\":%ld,\"dense_detected\":%ld,\"dense_bad\":%d}\n",
                                fns[f].name, len, placements, zero_wrong, positions, detected, faults, firstbad_a, firstbad_pos, dense, dense_detected, dense_bad);
                }
        }
        /* lengths beyond 32 bits: a sparse region of 4 GiB + 3000 bytes (never written except for single bytes, so it is backed by
         * the kernel's zero page), its end flush against an inaccessible page */
        if (argc > 3 && atoi(argv[3]) > 0) {
                int ncases = atoi(argv[3]);
                size_t L = ((size_t) 1 << 32) + 3000;
                struct vh_region hr = vh_region_new(L + 8192);
                unsigned char *p = vh_place(&hr, L, VH_END, 0);
                for (f = 0; f < sizeof(fns) / sizeof(fns[0]); f++) {
                        /* case 0: one non-zero byte just past 2^32; 1: the last byte; 2: all zero; 3: byte 2^31+5 */
                        static const size_t off[4] = { ((size_t) 1 << 32) + 100, ((size_t) 1 << 32) + 2999, 0, ((size_t) 1 << 31) + 5 };
                        long cases = 0, correct = 0, faults = 0;
                        int c, bad = -1;
                        if (!fns[f].f)
                                continue;
                        for (c = 0; c < ncases && c < 4; c++) {
                                int ret = 0, want = c != 2;
                                if (want)
                                        p[off[c]] = 0x80;
                                cases++;
                                VH_TRY { ret = fns[f].f(p, L); }
                                VH_CATCH { ret = -999; faults++; }
                                VH_DONE;
                                if ((ret != 0) == want && ret != -999)
                                        correct++;
                                else if (bad < 0)
                                        bad = c;
                                if (want)
                                        p[off[c]] = 0;
                        }
                        fprintf(out, "{\"fn\":\"%s\",\"huge\":1,\"len_mib\":%d,\"cases\":%ld,\"correct\":%ld,\"faults\":%ld,\"bad_case\":%d}\n", fns[f].name,
                                (int) (L >> 20), cases, correct, faults, bad);
                }
        }
        fclose(out);
        return 0;
}
