/* C20: exhaustive sweep of the zero-detect routine: every variant x len 0..N x alignment x position
 * of a single non-zero byte (values 0x01,0x80,0xFF rotating), with 0xFF neighbours outside the region
 * and the region flush against inaccessible pages.  Results are logged as aggregates per (variant,len)
 * and compared with spec/MemZero.tla by TLC. */
#include "vh.h"
#include "mem_routines.h"
#define W __attribute__((weak))
typedef int (*zfn)(void *, size_t);
extern int mem_zero_detect_base(void *, size_t) W;
extern int mem_zero_detect_sse(void *, size_t) W;
extern int mem_zero_detect_avx(void *, size_t) W;
extern int mem_zero_detect_avx2(void *, size_t) W;
extern int mem_zero_detect_avx512(void *, size_t) W;
static struct { const char *name; zfn f; } fns[] = { { "isal_zero_detect", isal_zero_detect }, { "mem_zero_detect_base", mem_zero_detect_base },
        { "mem_zero_detect_sse", mem_zero_detect_sse }, { "mem_zero_detect_avx", mem_zero_detect_avx }, { "mem_zero_detect_avx2", mem_zero_detect_avx2 },
        { "mem_zero_detect_avx512", mem_zero_detect_avx512 } };

int
main(int argc, char **argv)
{
        FILE *out = fopen(argv[1], "w");
        int N = atoi(argv[2]), len, a, pos;
        unsigned f;
        struct vh_region r;
        static const unsigned char vals[3] = { 0x01, 0x80, 0xFF };
        if (!out)
                return 3;
        vh_init((size_t) 1 << 30);
        r = vh_region_new(N + 1024);
        for (f = 0; f < sizeof(fns) / sizeof(fns[0]); f++) {
                if (!fns[f].f)
                        continue;
                for (len = 0; len <= N; len++) {
                        long placements = 0, zero_wrong = 0, positions = 0, detected = 0, faults = 0;
                        int firstbad_a = -1, firstbad_pos = -1;
                        int naligns = len < 200 ? 66 : 10;
                        for (a = 0; a < naligns; a++) {
                                /* a = 0: end flush against the trailing inaccessible page; a = 1: start flush against the
                                 * leading one; otherwise interior at alignment (a-2) (or a spread of 8 for large len) */
                                unsigned char *p = a == 0 ? vh_place(&r, len, VH_END, 0) : a == 1 ? vh_place(&r, len, VH_START, 0)
                                                   : vh_place(&r, len, VH_MID, len < 200 ? a - 2 : ((a - 2) * 9 + len) % 64);
                                int ret = 0;
                                memset(r.lo, 0xFF, r.hi - r.lo);
                                memset(p, 0, len);
                                placements++;
                                VH_TRY { ret = fns[f].f(p, len); }
                                VH_CATCH { ret = -999; faults++; }
                                VH_DONE;
                                if (ret != 0) {
                                        zero_wrong++;
                                        if (firstbad_a < 0) { firstbad_a = a; firstbad_pos = -1; }
                                }
                                for (pos = 0; pos < len; pos++) {
                                        p[pos] = vals[(pos + a + len) % 3];
                                        positions++;
                                        VH_TRY { ret = fns[f].f(p, len); }
                                        VH_CATCH { ret = 0; faults++; }
                                        VH_DONE;
                                        if (ret != 0)
                                                detected++;
                                        else if (firstbad_a < 0) { firstbad_a = a; firstbad_pos = pos; }
                                        p[pos] = 0;
                                }
                        }
                        fprintf(out, "{\"fn\":\"%s\",\"len\":%d,\"placements\":%ld,\"zero_wrong\":%ld,\"positions\":%ld,\"detected\":%ld,\"faults\":%ld,\"bad_a\":%d,\"bad_pos\":%d}\n",
                                fns[f].name, len, placements, zero_wrong, positions, detected, faults, firstbad_a, firstbad_pos);
                }
        }
        fclose(out);
        return 0;
}
