/* Common harness support: sparse PROT_NONE arena with guard-flush placements, fault capture,
 * tiny int-stream reader, JSON-ish output helpers.  The harness never computes an expected
 * value: it only drives the real code and compares with vectors that TLC produced, or records
 * what the real code did for TLC to judge. */
#ifndef VH_H
#define VH_H
#define _GNU_SOURCE
#include <stdio.h>
#include <stdlib.h>
#include <string.h>
#include <stdint.h>
#include <signal.h>
#include <setjmp.h>
#include <unistd.h>
#include <sys/mman.h>

#define VH_PAGE 4096
#define VH_GAP (1u << 20) /* inaccessible space between any two regions */

static unsigned char *vh_arena, *vh_arena_next, *vh_arena_end;
static sigjmp_buf vh_jmp;
static volatile int vh_armed;
static volatile void *vh_fault_addr;
static long vh_faults;

static void
vh_segv(int sig, siginfo_t *si, void *uc)
{
        (void) uc;
        if (vh_armed) {
                vh_fault_addr = si->si_addr;
                vh_armed = 0;
                siglongjmp(vh_jmp, sig);
        }
        /* a fault outside a guarded call is a harness/infrastructure problem */
        fprintf(stderr, "harness: unexpected signal %d at %p\n", sig, si->si_addr);
        _exit(3);
}

static void
vh_init(size_t arena_bytes)
{
        static char altstack[1 << 16];
        stack_t ss = { .ss_sp = altstack, .ss_size = sizeof(altstack), .ss_flags = 0 };
        struct sigaction sa;
        sigaltstack(&ss, NULL);
        memset(&sa, 0, sizeof(sa));
        sa.sa_sigaction = vh_segv;
        sa.sa_flags = SA_SIGINFO | SA_ONSTACK | SA_NODEFER;
        sigaction(SIGSEGV, &sa, NULL);
        sigaction(SIGBUS, &sa, NULL);
        sigaction(SIGILL, &sa, NULL);
        sigaction(SIGFPE, &sa, NULL);
        vh_arena = mmap(NULL, arena_bytes, PROT_NONE, MAP_PRIVATE | MAP_ANONYMOUS | MAP_NORESERVE, -1, 0);
        if (vh_arena == MAP_FAILED) {
                perror("mmap arena");
                _exit(3);
        }
        vh_arena_next = vh_arena + VH_GAP;
        vh_arena_end = vh_arena + arena_bytes;
}

/* A region: `cap` usable bytes (rounded up to pages) with >= 1 MiB of PROT_NONE on both sides. */
struct vh_region {
        unsigned char *lo; /* first accessible byte (page aligned) */
        unsigned char *hi; /* one past the last accessible byte (page aligned) */
};

static struct vh_region
vh_region_new(size_t cap)
{
        struct vh_region r;
        size_t sz = (cap + VH_PAGE - 1) / VH_PAGE * VH_PAGE;
        if (sz == 0)
                sz = VH_PAGE;
        if (vh_arena_next + sz + VH_GAP > vh_arena_end) {
                fprintf(stderr, "harness: arena exhausted\n");
                _exit(3);
        }
        r.lo = vh_arena_next;
        r.hi = r.lo + sz;
        if (mprotect(r.lo, sz, PROT_READ | PROT_WRITE) != 0) {
                perror("mprotect");
                _exit(3);
        }
        vh_arena_next = r.hi + VH_GAP;
        return r;
}

static void
vh_region_free(struct vh_region *r)
{
        /* back to inaccessible, physical pages dropped; the address range is never reused */
        mmap(r->lo, r->hi - r->lo, PROT_NONE, MAP_PRIVATE | MAP_ANONYMOUS | MAP_NORESERVE | MAP_FIXED, -1, 0);
}

/* pooled regions: reused between scenarios (still >= 1 MiB of inaccessible space around each) */
#define VH_POOL 64
static struct vh_region vh_pool[VH_POOL];
static int vh_pool_used[VH_POOL], vh_pool_n;
static struct vh_region
vh_region_get(size_t cap)
{
        int i, best = -1;
        size_t want = (cap + VH_PAGE - 1) / VH_PAGE * VH_PAGE;
        if (want == 0)
                want = VH_PAGE;
        for (i = 0; i < vh_pool_n; i++)
                if (!vh_pool_used[i] && (size_t) (vh_pool[i].hi - vh_pool[i].lo) >= want &&
                    (best < 0 || vh_pool[i].hi - vh_pool[i].lo < vh_pool[best].hi - vh_pool[best].lo))
                        best = i;
        if (best < 0) {
                if (vh_pool_n == VH_POOL)
                        return vh_region_new(cap);
                best = vh_pool_n++;
                vh_pool[best] = vh_region_new(cap);
        }
        vh_pool_used[best] = 1;
        return vh_pool[best];
}
static void
vh_region_put(struct vh_region *r)
{
        int i;
        for (i = 0; i < vh_pool_n; i++)
                if (vh_pool[i].lo == r->lo) {
                        vh_pool_used[i] = 0;
                        return;
                }
        vh_region_free(r);
}
/* canary window directly before p (up to 4 KiB, clipped to the region) */
static void
vh_window_fill(struct vh_region *r, unsigned char *p, int v)
{
        unsigned char *from = p - 4096 < r->lo ? r->lo : p - 4096;
        memset(from, v, p - from);
}
static int
vh_window_intact(struct vh_region *r, unsigned char *p, int v)
{
        unsigned char *q = p - 4096 < r->lo ? r->lo : p - 4096;
        for (; q < p; q++)
                if (*q != (unsigned char) v)
                        return 0;
        return 1;
}

enum { VH_END = 0, VH_START = 1, VH_MID = 2 };
#define VH_CANARY 0xA5

/* pointer to a buffer of len bytes inside region r under a placement:
 * VH_END: last byte directly before the trailing inaccessible page (minus `back` bytes, to honour
 *         alignment requirements); VH_START: first byte directly after the leading one;
 * VH_MID: at offset 256+off. */
static unsigned char *
vh_place(struct vh_region *r, size_t len, int placement, size_t off)
{
        switch (placement) {
        case VH_END:
                return r->hi - len - off;
        case VH_START:
                return r->lo + off;
        default:
                return r->lo + 256 + off;
        }
}

static void
vh_fill(struct vh_region *r, int v)
{
        memset(r->lo, v, r->hi - r->lo);
}

/* check that every byte of the region outside [p, p+len) still equals v */
static long
vh_outside_intact(struct vh_region *r, unsigned char *p, size_t len, int v)
{
        unsigned char *q;
        for (q = r->lo; q < p; q++)
                if (*q != (unsigned char) v)
                        return q - p; /* negative offset */
        for (q = p + len; q < r->hi; q++)
                if (*q != (unsigned char) v)
                        return q - p;
        return 0x7fffffff;
}

/* Guarded call: VH_TRY { call } VH_CATCH { fault handling } */
#define VH_TRY                                                                                     \
        vh_armed = 1;                                                                              \
        if (sigsetjmp(vh_jmp, 1) == 0)
#define VH_CATCH                                                                                   \
        else if ((vh_faults++, 1))
#define VH_DONE vh_armed = 0

/* ---- int-stream reader ---- */
static int
vh_rd(FILE *f)
{
        int v;
        if (fscanf(f, "%d", &v) != 1) {
                fprintf(stderr, "harness: short input\n");
                _exit(3);
        }
        return v;
}
static int
vh_rd_opt(FILE *f, int *v)
{
        return fscanf(f, "%d", v) == 1;
}
static unsigned char *
vh_rd_bytes(FILE *f, int n)
{
        unsigned char *b = malloc(n ? n : 1);
        int i;
        for (i = 0; i < n; i++)
                b[i] = (unsigned char) vh_rd(f);
        return b;
}
static void
vh_put_bytes(FILE *o, const unsigned char *b, size_t n)
{
        size_t i;
        fputc('[', o);
        for (i = 0; i < n; i++)
                fprintf(o, i ? ",%u" : "%u", b[i]);
        fputc(']', o);
}

static uint32_t vh_rng_s = 12345;
static uint32_t
vh_rng(void)
{
        vh_rng_s = vh_rng_s * 1664525u + 1013904223u;
        return vh_rng_s >> 8;
}
#endif
