/* CPUID/XGETBV answers for whole-library runs "as on" a given CPU level (env VERIF_CPU), used with the
 * re-assembled *_multibinary.asm objects (cpuid_shim.asm).  The host supports every extension, so any
 * level the resolvers choose can be executed natively. */
#include <stdint.h>
#include <stdlib.h>
#include <string.h>
static int lvl = -1;
static void
init(void)
{
        const char *e = getenv("VERIF_CPU");
        static const char *names[] = { "base", "sse", "avx", "avx2", "avx512", "avx512g2", "avx2gfni" };
        int i;
        lvl = 5;
        for (i = 0; e && i < 7; i++)
                if (!strcmp(e, names[i]))
                        lvl = i;
}
void
verif_cpuid_c(uint32_t leaf, uint32_t sub, uint32_t *out)
{
        if (lvl < 0)
                init();
        out[0] = out[1] = out[2] = out[3] = 0;
        if (leaf == 0)
                out[0] = 7;
        else if (leaf == 1) {
                out[0] = 0x000906ea;
                out[3] = (1u << 26) | (1u << 25);
                if (lvl >= 1)
                        out[2] |= 1u | (1u << 1) | (1u << 9) | (1u << 19) | (1u << 20) | (1u << 23);
                if (lvl >= 2)
                        out[2] |= (1u << 27) | (1u << 28);
        } else if (leaf == 7 && sub == 0) {
                if (lvl >= 3)
                        out[1] |= (1u << 5) | (1u << 3) | (1u << 8);
                if (lvl == 4 || lvl == 5)
                        out[1] |= (1u << 16) | (1u << 17) | (1u << 28) | (1u << 30) | (1u << 31);
                if (lvl == 5)
                        out[2] |= (1u << 6) | (1u << 8) | (1u << 9) | (1u << 10) | (1u << 11) | (1u << 12) | (1u << 14);
                if (lvl == 6)
                        out[2] |= (1u << 8) | (1u << 9) | (1u << 10);
        }
}
void
verif_xgetbv_c(uint32_t idx, uint32_t *out)
{
        if (lvl < 0)
                init();
        out[1] = 0;
        out[0] = idx ? 0 : lvl >= 4 && lvl != 6 ? 0xe7 : lvl >= 2 ? 7 : 3;
}
