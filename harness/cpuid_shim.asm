; Pre-included (nasm -p) when re-assembling the repository's *_multibinary.asm files, unmodified:
; the mnemonics cpuid / xgetbv become calls into the harness, which answers from a configuration record.
%macro cpuid 0
	call	verif_cpuid
%endmacro
%macro xgetbv 0
	call	verif_xgetbv
%endmacro
extern verif_cpuid
extern verif_xgetbv
