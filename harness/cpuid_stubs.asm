; Stubs for the intercepted instructions. They preserve every register except the architectural
; outputs (eax,ebx,ecx,edx for cpuid; eax,edx for xgetbv) and the flags are left as the C helper leaves
; them (the resolvers never rely on flags across cpuid/xgetbv).
default rel
[bits 64]
extern verif_cpuid_c
extern verif_xgetbv_c
global verif_cpuid
global verif_xgetbv
section .text
%macro SAVE 0
	push	rsi
	push	rdi
	push	r8
	push	r9
	push	r10
	push	r11
	push	rbp
	mov	rbp, rsp
	and	rsp, -16
	sub	rsp, 32
%endmacro
%macro RESTORE 0
	mov	rsp, rbp
	pop	rbp
	pop	r11
	pop	r10
	pop	r9
	pop	r8
	pop	rdi
	pop	rsi
%endmacro
verif_cpuid:
	SAVE
	mov	edi, eax		; leaf
	mov	esi, ecx		; subleaf
	lea	rdx, [rsp]		; out[4]
	call	verif_cpuid_c
	mov	eax, [rsp]
	mov	ebx, [rsp + 4]
	mov	ecx, [rsp + 8]
	mov	edx, [rsp + 12]
	RESTORE
	ret
verif_xgetbv:
	push	rbx
	push	rcx
	SAVE
	mov	edi, ecx
	lea	rsi, [rsp]
	call	verif_xgetbv_c
	mov	eax, [rsp]
	mov	edx, [rsp + 4]
	RESTORE
	pop	rcx
	pop	rbx
	ret
section .note.GNU-stack noalloc noexec nowrite progbits
