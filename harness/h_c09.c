/* C09: (1) dump generator matrices; (2) run gf_invert_matrix on driver-chosen matrices and record
 * (in, ret, out); (3) erasure sweep on the real pipeline generator -> gf_invert_matrix ->
 * ec_init_tables -> ec_encode_data, expected = the original blocks. */
#include "vh.h"
#include "erasure_code.h"

static FILE *out;
static void
put_mat(const char *key, unsigned char *a, int n)
{
        fprintf(out, "\"%s\":", key);
        vh_put_bytes(out, a, n);
}

/* ---- sweep ---- */
#define MAXLEN 256
static int LEN = 96; /* block length; argv[5] overrides it (<= MAXLEN) */
static unsigned char data[256][MAXLEN];
static long g_sets, g_inv_fail, g_mismatch, g_sampled;
static int sample_every;

/* survivors: sorted list of k surviving fragment indexes (of m). Rebuild every erased fragment. */
static int
try_survivors(unsigned char *enc, int m, int k, int *surv, int *fail_kind)
{
        static unsigned char b[128 * 128], inv[128 * 128], b2[128 * 128], dec[128 * 128], tbls[128 * 128 * 32];
        unsigned char *srcp[128], *outp[128];
        static unsigned char outbuf[128][MAXLEN];
        int i, j, t, nerr = 0, err[256], is_surv[256] = { 0 };
        for (i = 0; i < k; i++) {
                is_surv[surv[i]] = 1;
                memcpy(&b[k * i], &enc[k * surv[i]], k);
                srcp[i] = data[surv[i]];
        }
        memcpy(b2, b, k * k);
        if (gf_invert_matrix(b2, inv, k) != 0) {
                *fail_kind = 1;
                return -1;
        }
        for (i = 0; i < m && nerr < 128; i++)
                if (!is_surv[i])
                        err[nerr++] = i;
        if (nerr > m - k)
                nerr = m - k;
        if (nerr == 0)
                return 0;
        for (i = 0; i < nerr; i++) {
                if (err[i] < k)
                        memcpy(&dec[k * i], &inv[k * err[i]], k);
                else
                        for (j = 0; j < k; j++) {
                                unsigned char s = 0;
                                for (t = 0; t < k; t++)
                                        s ^= gf_mul(inv[t * k + j], enc[k * err[i] + t]);
                                dec[k * i + j] = s;
                        }
                outp[i] = outbuf[i];
                memset(outbuf[i], 0x5a, LEN);
        }
        ec_init_tables(k, nerr, dec, tbls);
        ec_encode_data(LEN, k, nerr, tbls, srcp, outp);
        for (i = 0; i < nerr; i++)
                if (memcmp(outbuf[i], data[err[i]], LEN)) {
                        *fail_kind = 2;
                        return -1;
                }
        /* a sample of (decode matrix, inverse) pairs is handed to TLC */
        if (sample_every && (g_sets % sample_every) == 0 && k <= 24) {
                g_sampled++;
                fprintf(out, "{\"t\":\"inv\",\"n\":%d,\"ret\":0,", k);
                put_mat("in", b, k * k);
                fputc(',', out);
                put_mat("out", inv, k * k);
                fprintf(out, "}\n");
        }
        return 0;
}

static void
sweep(const char *gen, int m, int k, long max_sets, int exhaustive)
{
        static unsigned char enc[256 * 256];
        unsigned char *srcp[256], *parp[256];
        static unsigned char tbls[128 * 128 * 32];
        int surv[256], i, fk = 0, first_fail[256], nfail = 0, fail_kind = 0;
        long sets = 0, bad = 0;
        if (!strcmp(gen, "cauchy"))
                gf_gen_cauchy1_matrix(enc, m, k);
        else
                gf_gen_rs_matrix(enc, m, k);
        for (i = 0; i < k; i++) {
                int j;
                for (j = 0; j < LEN; j++)
                        data[i][j] = (unsigned char) vh_rng();
                srcp[i] = data[i];
        }
        for (i = k; i < m; i++)
                parp[i - k] = data[i];
        if (m > k) {
                ec_init_tables(k, m - k, &enc[k * k], tbls);
                ec_encode_data(LEN, k, m - k, tbls, srcp, parp);
        }
        if (exhaustive) { /* every k-subset of m in lexicographic order */
                for (i = 0; i < k; i++)
                        surv[i] = i;
                for (;;) {
                        sets++;
                        g_sets++;
                        if (try_survivors(enc, m, k, surv, &fk) != 0) {
                                if (!bad) {
                                        memcpy(first_fail, surv, sizeof(int) * k);
                                        nfail = k;
                                        fail_kind = fk;
                                }
                                bad++;
                        }
                        for (i = k - 1; i >= 0 && surv[i] == m - k + i; i--)
                                ;
                        if (i < 0)
                                break;
                        surv[i]++;
                        for (i++; i < k; i++)
                                surv[i] = surv[i - 1] + 1;
                }
        } else {
                long s;
                for (s = 0; s < max_sets; s++) { /* random k-subsets (Floyd-free: partial shuffle) */
                        int perm[256], j;
                        for (i = 0; i < m; i++)
                                perm[i] = i;
                        for (i = 0; i < k; i++) {
                                j = i + vh_rng() % (m - i);
                                int t = perm[i];
                                perm[i] = perm[j];
                                perm[j] = t;
                        }
                        /* sort the first k */
                        for (i = 1; i < k; i++) {
                                int x = perm[i];
                                for (j = i - 1; j >= 0 && perm[j] > x; j--)
                                        perm[j + 1] = perm[j];
                                perm[j + 1] = x;
                        }
                        sets++;
                        g_sets++;
                        if (try_survivors(enc, m, k, perm, &fk) != 0) {
                                if (!bad) {
                                        memcpy(first_fail, perm, sizeof(int) * k);
                                        nfail = k;
                                        fail_kind = fk;
                                }
                                bad++;
                        }
                }
        }
        fprintf(out, "{\"t\":\"sweep\",\"gen\":\"%s\",\"m\":%d,\"k\":%d,\"exhaustive\":%s,\"sets\":%ld,\"bad\":%ld,\"fail_kind\":%d,\"first_fail\":[", gen, m, k,
                exhaustive ? "true" : "false", sets, bad, fail_kind);
        for (i = 0; i < nfail; i++)
                fprintf(out, i ? ",%d" : "%d", first_fail[i]);
        fprintf(out, "]}\n");
}

int
main(int argc, char **argv)
{
        FILE *in = fopen(argv[1], "r");
        int n, i, t;
        static unsigned char a[256 * 256], b[256 * 256], c[256 * 256];
        out = fopen(argv[2], "w");
        if (!in || !out)
                return 3;
        vh_rng_s = (uint32_t) atoi(argv[3]);
        sample_every = atoi(argv[4]);
        if (argc > 5 && atoi(argv[5]) > 0 && atoi(argv[5]) <= MAXLEN)
                LEN = atoi(argv[5]);
        while (vh_rd_opt(in, &t)) {
                if (t == 1 || t == 2) { /* generator dump: m k */
                        int m = vh_rd(in), k = vh_rd(in);
                        memset(a, 0xEE, m * k);
                        if (t == 1)
                                gf_gen_rs_matrix(a, m, k);
                        else
                                gf_gen_cauchy1_matrix(a, m, k);
                        fprintf(out, "{\"t\":\"%s\",\"m\":%d,\"k\":%d,", t == 1 ? "rs" : "cauchy", m, k);
                        put_mat("a", a, m * k);
                        fprintf(out, "}\n");
                } else if (t == 3) { /* invert: n, n*n bytes */
                        int ret;
                        n = vh_rd(in);
                        for (i = 0; i < n * n; i++)
                                a[i] = (unsigned char) vh_rd(in);
                        memcpy(b, a, n * n);
                        memset(c, 0xEE, n * n);
                        ret = gf_invert_matrix(b, c, n);
                        fprintf(out, "{\"t\":\"inv\",\"n\":%d,\"ret\":%d,", n, ret);
                        put_mat("in", a, n * n);
                        fputc(',', out);
                        put_mat("out", c, n * n);
                        fprintf(out, "}\n");
                } else if (t == 4) { /* sweep: gen(1 rs,2 cauchy) m k exhaustive max_sets */
                        int g = vh_rd(in), m = vh_rd(in), k = vh_rd(in), ex = vh_rd(in), mx = vh_rd(in);
                        sweep(g == 1 ? "rs" : "cauchy", m, k, mx, ex);
                }
        }
        fprintf(out, "{\"t\":\"summary\",\"sets\":%ld,\"sampled\":%ld}\n", g_sets, g_sampled);
        fclose(out);
        return 0;
}
