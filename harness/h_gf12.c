/* C12: dump everything the scalar GF(2^8) routines and table builders produce (exhaustive). */
#include "vh.h"
#include "erasure_code.h"
#include "gf_vect_mul.h"
extern void ec_init_tables_gfni(int k, int rows, unsigned char *a, unsigned char *g_tbls);

static void
nib(FILE *o, const char *src, int c, unsigned char *t)
{
        fprintf(o, "{\"t\":\"nib\",\"src\":\"%s\",\"c\":%d,\"tbl\":", src, c);
        vh_put_bytes(o, t, 32);
        fprintf(o, "}\n");
}

int
main(int argc, char **argv)
{
        FILE *o = fopen(argv[1], "w");
        int a, b, c;
        unsigned char row[256], all[256], tbl[256 * 32 + 64];
        if (!o)
                return 3;
        for (a = 0; a < 256; a++) {
                for (b = 0; b < 256; b++)
                        row[b] = gf_mul(a, b);
                fprintf(o, "{\"t\":\"mul\",\"a\":%d,\"row\":", a);
                vh_put_bytes(o, row, 256);
                fprintf(o, "}\n");
        }
        for (a = 0; a < 256; a++)
                row[a] = gf_inv(a);
        fprintf(o, "{\"t\":\"inv\",\"v\":");
        vh_put_bytes(o, row, 256);
        fprintf(o, "}\n");
        for (c = 0; c < 256; c++) {
                memset(tbl, 0xEE, 64);
                gf_vect_mul_init(c, tbl);
                nib(o, "gf_vect_mul_init", c, tbl);
                all[c] = c;
        }
        /* ... and into table slots that are not 8-byte aligned (no alignment is documented for the table) */
        for (c = 0; c < 256; c++) {
                unsigned char *t = tbl + 64 + 1 + (c % 15);
                memset(tbl, 0xEE, 256);
                gf_vect_mul_init(c, t);
                nib(o, "gf_vect_mul_init(unaligned)", c, t);
        }
        memset(tbl, 0xEE, sizeof(tbl));
        ec_init_tables_base(16, 16, all, tbl + 3);
        for (c = 0; c < 256; c++)
                nib(o, "ec_init_tables_base(unaligned)", c, tbl + 3 + 32 * c);
        /* the table builders over a 16x16 coefficient matrix holding every constant once */
        memset(tbl, 0xEE, sizeof(tbl));
        ec_init_tables_base(16, 16, all, tbl);
        for (c = 0; c < 256; c++)
                nib(o, "ec_init_tables_base", c, tbl + 32 * c);
        memset(tbl, 0xEE, sizeof(tbl));
        ec_init_tables(16, 16, all, tbl);
        /* the dispatched builder may produce the 8-byte GFNI form on this host */
        {
                int is_nib = 1;
                unsigned char t1[32];
                gf_vect_mul_init(1, t1);
                if (memcmp(tbl + 32, t1, 32) != 0)
                        is_nib = 0;
                for (c = 0; c < 256; c++) {
                        if (is_nib)
                                nib(o, "ec_init_tables", c, tbl + 32 * c);
                        else {
                                fprintf(o, "{\"t\":\"gfni\",\"src\":\"ec_init_tables\",\"c\":%d,\"m\":", c);
                                vh_put_bytes(o, tbl + 8 * c, 8);
                                fprintf(o, "}\n");
                        }
                }
        }
        /* "any table-driven product of c with a byte equals the field product": the constant-multiply kernels (every variant) over a 512-byte
         * buffer that holds every byte value twice, at two different offsets within the 32-byte groups the kernels work in */
        {
                static unsigned char src[512] __attribute__((aligned(64))), dst[512] __attribute__((aligned(64)));
                extern int gf_vect_mul_sse(int, unsigned char *, void *, void *);
                extern int gf_vect_mul_avx(int, unsigned char *, void *, void *);
                int v, i;
                for (i = 0; i < 256; i++) {
                        src[i] = (unsigned char) i;
                        src[256 + i] = (unsigned char) (i * 7 + 13);   /* a permutation of the byte values (7 is odd) */
                }
                for (c = 0; c < 256; c++) {
                        unsigned char t[32];
                        gf_vect_mul_init(c, t);
                        for (v = 0; v < 4; v++) {
                                int ret = 0;
                                memset(dst, 0xEE, sizeof(dst));
                                if (v == 0)
                                        gf_vect_mul_base(512, t, src, dst);
                                else if (v == 1)
                                        ret = gf_vect_mul(512, t, src, dst);
                                else if (v == 2)
                                        ret = gf_vect_mul_sse(512, t, src, dst);
                                else
                                        ret = gf_vect_mul_avx(512, t, src, dst);
                                fprintf(o, "{\"t\":\"vmul\",\"src\":\"gf_vect_mul%s\",\"c\":%d,\"ret\":%d,\"out\":", v == 0 ? "_base" : v == 1 ? "" : v == 2 ? "_sse" : "_avx", c, ret);
                                vh_put_bytes(o, dst, 512);
                                fprintf(o, "}\n");
                        }
                }
        }
        memset(tbl, 0xEE, sizeof(tbl));
        ec_init_tables_gfni(16, 16, all, tbl);
        for (c = 0; c < 256; c++) {
                fprintf(o, "{\"t\":\"gfni\",\"src\":\"ec_init_tables_gfni\",\"c\":%d,\"m\":", c);
                vh_put_bytes(o, tbl + 8 * c, 8);
                fprintf(o, "}\n");
        }
        fclose(o);
        return 0;
}
