/* C05 (remaining data-plane entry points): isal_update_histogram (every variant), ec_init_tables (every variant), the
 * generator-matrix builders and gf_invert_matrix, each with every buffer an exact-size range whose last byte lies directly
 * before (and, in a second pass, whose first byte lies directly after) an inaccessible page, and canaries around
 * destinations.  Output: one JSON line per (function, case class) with calls / faults / first failing case. */
#include "vh.h"
#include "igzip_lib.h"
#include "erasure_code.h"
#define W __attribute__((weak))
extern void isal_update_histogram_base(uint8_t *, int, struct isal_huff_histogram *) W;
extern void isal_update_histogram_01(uint8_t *, int, struct isal_huff_histogram *) W;
extern void isal_update_histogram_04(uint8_t *, int, struct isal_huff_histogram *) W;
extern void ec_init_tables_base(int, int, unsigned char *, unsigned char *) W;
extern void ec_init_tables_gfni(int, int, unsigned char *, unsigned char *) W;
typedef void (*hfn)(uint8_t *, int, struct isal_huff_histogram *);
typedef void (*tfn)(int, int, unsigned char *, unsigned char *);
static FILE *out;

static void
fill_pattern(unsigned char *p, int n, int pat)
{
        int i;
        uint32_t x = 12345 + pat;
        for (i = 0; i < n; i++) {
                switch (pat) {
                case 0: p[i] = 0; break;
                case 1: p[i] = 0xFF; break;
                case 2: p[i] = "abcde"[i % 5]; break;
                case 3: p[i] = "ab"[i % 2]; break;
                case 4: p[i] = "abc"[i % 3]; break;
                case 5: p[i] = (unsigned char) (i % 7 + (i / 300)); break;
                case 6: p[i] = "the quick brown fox jumps over the lazy dog "[i % 44]; break;
                case 7: p[i] = (unsigned char) (i % 258 == 0 ? 1 : 0); break;
                default: x = x * 1664525u + 1013904223u; p[i] = (unsigned char) (x >> 24);
                }
        }
}

int
main(int argc, char **argv)
{
        int N = atoi(argv[2]), n, pat, pl, f, k, m;
        struct vh_region r, hr_;
        struct { const char *name; hfn fn; } hf[] = { { "isal_update_histogram", isal_update_histogram }, { "isal_update_histogram_base", isal_update_histogram_base },
                { "isal_update_histogram_01", isal_update_histogram_01 }, { "isal_update_histogram_04", isal_update_histogram_04 } };
        struct { const char *name; tfn fn; } tf[] = { { "ec_init_tables", ec_init_tables }, { "ec_init_tables_base", ec_init_tables_base }, { "ec_init_tables_gfni", ec_init_tables_gfni } };
        out = fopen(argv[1], "w");
        if (!out)
                return 3;
        vh_init((size_t) 1 << 32);
        r = vh_region_new(N + 4096);
        hr_ = vh_region_new(sizeof(struct isal_huff_histogram) + 4096);
        for (f = 0; f < 4; f++) {
                long calls = 0, faults = 0;
                int bad_n = -1, bad_pat = -1, bad_pl = -1;
                if (!hf[f].fn)
                        continue;
                for (pat = 0; pat < 9; pat++)
                        for (n = 0; n <= N; n++)
                                for (pl = 0; pl < 2; pl++) {
                                        unsigned char *p = vh_place(&r, n, pl ? VH_START : VH_END, 0);
                                        struct isal_huff_histogram *h = (struct isal_huff_histogram *) vh_place(&hr_, sizeof(*h), pl ? VH_START : VH_END, 0);
                                        if (n > 1500 && pat > 2 && (n % 7))
                                                continue; /* long lengths: all residues for the periodic patterns that steer the match finder, sampled otherwise */
                                        fill_pattern(p, n, pat);
                                        memset(h, 0, sizeof(*h));
                                        calls++;
                                        VH_TRY { hf[f].fn(p, n, h); }
                                        VH_CATCH {
                                                faults++;
                                                if (bad_n < 0) {
                                                        bad_n = n;
                                                        bad_pat = pat;
                                                        bad_pl = pl;
                                                }
                                        }
                                        VH_DONE;
                                }
                fprintf(out, "{\"fn\":\"%s\",\"calls\":%ld,\"faults\":%ld,\"bad\":[%d,%d,%d],\"what\":\"length,pattern,placement(0=end flush,1=start flush)\"}\n", hf[f].name, calls, faults, bad_n,
                        bad_pat, bad_pl);
        }
        /* ec_init_tables: reads k*rows coefficients, writes 32*k*rows table bytes */
        {
                struct vh_region ar = vh_region_new(4096 * 2), tr = vh_region_new(32 * 40 * 40 + 8192);
                for (f = 0; f < 3; f++) {
                        long calls = 0, faults = 0, scribbles = 0;
                        int bad_k = -1, bad_m = -1;
                        if (!tf[f].fn)
                                continue;
                        for (k = 1; k <= 36; k++)
                                for (m = 1; m <= 36; m += (k > 12 ? 5 : 1))
                                        for (pl = 0; pl < 2; pl++) {
                                                unsigned char *a = vh_place(&ar, k * m, pl ? VH_START : VH_END, 0), *t;
                                                int i;
                                                vh_fill(&tr, VH_CANARY);
                                                t = vh_place(&tr, 32 * k * m, pl ? VH_START : VH_END, 0);
                                                for (i = 0; i < k * m; i++)
                                                        a[i] = (unsigned char) (i * 37 + k + (i % 5 == 0 ? 0 : m));
                                                calls++;
                                                VH_TRY { tf[f].fn(k, m, a, t); }
                                                VH_CATCH {
                                                        faults++;
                                                        if (bad_k < 0) {
                                                                bad_k = k;
                                                                bad_m = m;
                                                        }
                                                }
                                                VH_DONE;
                                                if (vh_outside_intact(&tr, t, 32 * k * m, VH_CANARY) != 0x7fffffff) {
                                                        scribbles++;
                                                        if (bad_k < 0) {
                                                                bad_k = k;
                                                                bad_m = m;
                                                        }
                                                }
                                        }
                        fprintf(out, "{\"fn\":\"%s\",\"calls\":%ld,\"faults\":%ld,\"scribbles\":%ld,\"bad\":[%d,%d],\"what\":\"k,rows\"}\n", tf[f].name, calls, faults, scribbles, bad_k, bad_m);
                }
        }
        /* generator matrices (m*k bytes written) and matrix inversion (n*n read, n*n written; the input may be modified) */
        {
                struct vh_region mr = vh_region_new(8192), ir = vh_region_new(8192);
                long calls = 0, faults = 0, scribbles = 0;
                int bad_k = -1, bad_m = -1, which;
                for (which = 0; which < 2; which++) {
                        calls = faults = scribbles = 0;
                        bad_k = bad_m = -1;
                        for (m = 1; m <= 60; m += (m > 20 ? 7 : 1))
                                for (k = 1; k <= m; k += (k > 12 ? 5 : 1))
                                        for (pl = 0; pl < 2; pl++) {
                                                unsigned char *a;
                                                vh_fill(&mr, VH_CANARY);
                                                a = vh_place(&mr, m * k, pl ? VH_START : VH_END, 0);
                                                calls++;
                                                VH_TRY {
                                                        if (which)
                                                                gf_gen_cauchy1_matrix(a, m, k);
                                                        else
                                                                gf_gen_rs_matrix(a, m, k);
                                                }
                                                VH_CATCH { faults++; if (bad_k < 0) { bad_k = k; bad_m = m; } }
                                                VH_DONE;
                                                if (vh_outside_intact(&mr, a, m * k, VH_CANARY) != 0x7fffffff) {
                                                        scribbles++;
                                                        if (bad_k < 0) { bad_k = k; bad_m = m; }
                                                }
                                        }
                        fprintf(out, "{\"fn\":\"%s\",\"calls\":%ld,\"faults\":%ld,\"scribbles\":%ld,\"bad\":[%d,%d],\"what\":\"k,m\"}\n", which ? "gf_gen_cauchy1_matrix" : "gf_gen_rs_matrix", calls,
                                faults, scribbles, bad_k, bad_m);
                }
                calls = faults = scribbles = 0;
                bad_k = -1;
                for (n = 1; n <= 40; n++)
                        for (pat = 0; pat < 3; pat++)
                                for (pl = 0; pl < 2; pl++) {
                                        unsigned char *a, *b;
                                        int i;
                                        vh_fill(&mr, VH_CANARY);
                                        vh_fill(&ir, VH_CANARY);
                                        a = vh_place(&mr, n * n, pl ? VH_START : VH_END, 0);
                                        b = vh_place(&ir, n * n, pl ? VH_START : VH_END, 0);
                                        for (i = 0; i < n * n; i++) /* Cauchy-like (invertible), identity with a zero pivot column, singular */
                                                a[i] = pat == 0 ? gf_inv((unsigned char) ((i / n) ^ (n + i % n))) : pat == 1 ? (unsigned char) ((i / n + 1) % n == i % n) : (unsigned char) (i % n);
                                        calls++;
                                        VH_TRY { gf_invert_matrix(a, b, n); }
                                        VH_CATCH { faults++; if (bad_k < 0) bad_k = n; }
                                        VH_DONE;
                                        if (vh_outside_intact(&mr, a, n * n, VH_CANARY) != 0x7fffffff || vh_outside_intact(&ir, b, n * n, VH_CANARY) != 0x7fffffff) {
                                                scribbles++;
                                                if (bad_k < 0) bad_k = n;
                                        }
                                }
                fprintf(out, "{\"fn\":\"gf_invert_matrix\",\"calls\":%ld,\"faults\":%ld,\"scribbles\":%ld,\"bad\":[%d,0],\"what\":\"n\"}\n", calls, faults, scribbles, bad_k);
        }
        fclose(out);
        return 0;
}
