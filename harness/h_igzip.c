/* Scenario runner for igzip (C01 C02 C05 C06 C07 C10 C11 C14 C15 C17 C18): drives isal_deflate /
 * isal_deflate_stateless / isal_inflate / isal_inflate_stateless along a schedule read from a file and
 * records one event per public call (arguments, return code, counters, bytes produced, cheap scalars of
 * the public state structs).  It computes no expected value: TLC judges the recorded trace. */
#include "vh.h"
#include "igzip_lib.h"

enum { API_DEFLATE, API_DEFLATE_STATELESS, API_INFLATE, API_INFLATE_STATELESS, API_DEFLATE_STATELESS_MULTI /* several one-shot calls on ONE context (FULL_FLUSH ... final) */ };
enum { MEM_CONTIG, MEM_FRESH, MEM_RECYCLE, MEM_FRESH_START };
#define MAXCALLS 200000

struct call { int ai, ao, flush, eos; };
static FILE *out;
static long total_calls, total_faults;

static const char *
zstate_name(int s)
{
        static const char *n[] = { "NEW_HDR", "HDR", "CREATE_HDR", "BODY", "FLUSH_READ_BUFFER", "FLUSH_ICF_BUFFER", "TYPE0_HDR",
                "TYPE0_BODY", "SYNC_FLUSH", "FLUSH_WRITE_BUFFER", "TRL", "END", "TMP_NEW_HDR", "TMP_HDR", "TMP_CREATE_HDR", "TMP_BODY",
                "TMP_FLUSH_READ_BUFFER", "TMP_FLUSH_ICF_BUFFER", "TMP_TYPE0_HDR", "TMP_TYPE0_BODY", "TMP_SYNC_FLUSH",
                "TMP_FLUSH_WRITE_BUFFER", "TMP_TRL", "TMP_END" };
        /* names come from the enum order of the public header; a renumbering shows up as a different name, never as a verdict */
        if (s == ZSTATE_NEW_HDR) return "NEW_HDR";
        if (s == ZSTATE_END) return "END";
        return (s >= 0 && s < 24) ? n[s] : "?";
}
static const char *
bstate_name(int s)
{
        if (s == ISAL_BLOCK_FINISH) return "FINISH";
        if (s == ISAL_BLOCK_NEW_HDR) return "NEW_HDR";
        if (s == ISAL_BLOCK_INPUT_DONE) return "INPUT_DONE";
        if (s == ISAL_BLOCK_HDR) return "HDR";
        if (s == ISAL_BLOCK_TYPE0) return "TYPE0";
        if (s == ISAL_BLOCK_CODED) return "CODED";
        if (s == ISAL_CHECKSUM_CHECK) return "CHECKSUM_CHECK";
        if (s == ISAL_GZIP_EXTRA_LEN) return "GZIP_EXTRA_LEN";
        if (s == ISAL_GZIP_EXTRA) return "GZIP_EXTRA";
        if (s == ISAL_GZIP_NAME) return "GZIP_NAME";
        if (s == ISAL_GZIP_COMMENT) return "GZIP_COMMENT";
        if (s == ISAL_GZIP_HCRC) return "GZIP_HCRC";
        if (s == ISAL_ZLIB_DICT) return "ZLIB_DICT";
        return "?";
}

static void
prefill(void *p, size_t n, int mode)
{
        size_t i;
        unsigned char *b = p;
        if (mode == 0)
                memset(p, 0, n);
        else if (mode == 1)
                memset(p, 0xff, n);
        else
                for (i = 0; i < n; i++)
                        b[i] = (unsigned char) (vh_rng() >> 3);
}

static uint32_t
lbuf_size(int level, int cls)
{
        static const uint32_t t[4][5] = {
                { ISAL_DEF_LVL0_MIN, ISAL_DEF_LVL0_SMALL, ISAL_DEF_LVL0_MEDIUM, ISAL_DEF_LVL0_LARGE, ISAL_DEF_LVL0_EXTRA_LARGE },
                { ISAL_DEF_LVL1_MIN, ISAL_DEF_LVL1_SMALL, ISAL_DEF_LVL1_MEDIUM, ISAL_DEF_LVL1_LARGE, ISAL_DEF_LVL1_EXTRA_LARGE },
                { ISAL_DEF_LVL2_MIN, ISAL_DEF_LVL2_SMALL, ISAL_DEF_LVL2_MEDIUM, ISAL_DEF_LVL2_LARGE, ISAL_DEF_LVL2_EXTRA_LARGE },
                { ISAL_DEF_LVL3_MIN, ISAL_DEF_LVL3_SMALL, ISAL_DEF_LVL3_MEDIUM, ISAL_DEF_LVL3_LARGE, ISAL_DEF_LVL3_EXTRA_LARGE } };
        int l = level < 0 || level > 3 ? 1 : level;
        if (cls >= 0 && cls <= 4)
                return t[l][cls];
        if (cls == 6)
                return t[l][0] ? t[l][0] - 1 : 0; /* one byte below the documented minimum */
        if (cls >= 7 && cls <= 10) /* 7..10: a level buffer that does not start on an aligned address (offset 1, 1, 2, 3; sizes LARGE, MIN, LARGE, LARGE) */
                return t[l][cls == 8 ? 0 : 3];
        return 0; /* cls 5: NULL buffer */
}

/* input chunk memory under the three disciplines */
struct feeder {
        int mem;
        unsigned char *all; /* contiguous copy (MEM_CONTIG) */
        struct vh_region all_r, cur_r, ring[2];
        int have_cur, ring_i;
        size_t ring_cap;
};
static unsigned char *
feed_chunk(struct feeder *f, const unsigned char *src, size_t off, size_t n)
{
        if (f->mem == MEM_CONTIG)
                return f->all + off;
        if (f->mem == MEM_FRESH || f->mem == MEM_FRESH_START) {
                unsigned char *p;
                f->cur_r = vh_region_new(n ? n : 1);
                f->have_cur = 1;
                /* exact-size: last byte flush against an inaccessible page; or (MEM_FRESH_START) the FIRST byte directly behind one:
                 * what lies in front of a chunk is not the previous chunk */
                p = vh_place(&f->cur_r, n, f->mem == MEM_FRESH ? VH_END : VH_START, 0);
                memcpy(p, src + off, n);
                return p;
        }
        /* MEM_RECYCLE: two buffers used alternately */
        f->ring_i ^= 1;
        {
                unsigned char *p = vh_place(&f->ring[f->ring_i], n, VH_END, 0);
                memcpy(p, src + off, n);
                return p;
        }
}
static void
release_chunk(struct feeder *f, unsigned char *p, size_t n)
{
        if ((f->mem == MEM_FRESH || f->mem == MEM_FRESH_START) && f->have_cur) {
                vh_region_free(&f->cur_r); /* consumed input is unmapped at once */
                f->have_cur = 0;
        } else if (f->mem == MEM_RECYCLE) {
                size_t i;
                for (i = 0; i < n; i++) /* consumed input is scribbled over at once */
                        p[i] = (unsigned char) (vh_rng() >> 5);
        }
}

static void
log_bytes(const char *key, const unsigned char *b, size_t n)
{
        fprintf(out, ",\"%s\":", key);
        vh_put_bytes(out, b, n);
}

struct scn {
        int id, api, level, wrap, hist_bits, table, lbuf, mem, prefill, dictmode, dictlen, inlen, ncalls, tail_ai, tail_ao, cap, adapt;
        unsigned char *dict, *in;
        struct call *calls;
};

/* Adaptive schedules (scenario with ncalls < 0): the next call's (room class, hand over input, flush, end_of_stream) is the
 * environment choice of the DeflateStream model least often taken so far from the control state the stream is in now - a
 * coverage-guided walk over the model's (state, environment action) keys.  The calls made are recorded like any others; the
 * driver turns them into an explicit schedule, so a replay file does not depend on this policy. */
static unsigned short acov[64][3][2][3][2];
static uint32_t arng;
static uint32_t
arnd(void)
{
        arng ^= arng << 13;
        arng ^= arng >> 17;
        arng ^= arng << 5;
        return arng;
}
static struct call
adapt_choose(struct scn *s, struct isal_zstream *z, size_t fed, int eos_set, int i)
{
        static const int big[] = { 8, 9, 15, 16, 17, 64, 300, 5000, 70000 };
        static const int chunks[] = { 1, 2, 3, 8, 31, 64, 300, 4096, 20000 };
        struct call c;
        int st = z->internal_state.state & 63, room, give, fl, eos, best = 1 << 30, nb = 0, pick[4] = { 2, 1, 0, 1 };
        size_t left = s->inlen - fed;
        int buffered = z->internal_state.b_bytes_valid != z->internal_state.b_bytes_processed;
        if (i > s->cap / 2) { /* drain: make sure the stream ends */
                c.ai = (int) left;
                c.ao = 1 << 16;
                c.flush = 0;
                c.eos = 1;
                return c;
        }
        for (room = 0; room < 3; room++)
                for (give = 0; give < 2; give++)
                        for (fl = 0; fl < 3; fl++)
                                for (eos = 0; eos < 2; eos++) {
                                        int inp, n;
                                        if (give && (left == 0 || z->avail_in > 0 || eos_set))
                                                continue;
                                        if (eos_set && !eos)
                                                continue;
                                        if (eos && !eos_set && !give && left > 0)
                                                continue; /* end_of_stream is announced with or after the last chunk */
                                        if (eos && !eos_set && give && left > (size_t) s->inlen / 16 + 1 && i < s->cap / 3)
                                                continue; /* keep the stream going: the last chunk is a small one */
                                        inp = z->avail_in > 0 || give || buffered;
                                        n = acov[st][room][inp][fl][eos] * 4 + (int) (arnd() & 3);
                                        if (n < best) {
                                                best = n;
                                                pick[0] = room;
                                                pick[1] = give;
                                                pick[2] = fl;
                                                pick[3] = eos;
                                        }
                                        nb++;
                                }
        (void) nb;
        room = pick[0];
        give = pick[1];
        fl = pick[2];
        eos = pick[3];
        acov[st][room][z->avail_in > 0 || give || buffered][fl][eos]++;
        c.ao = room == 0 ? 0 : room == 1 ? 1 + (int) (arnd() % 7) : big[arnd() % 9];
        c.ai = !give ? 0 : (eos && !eos_set) ? (int) left : chunks[arnd() % 9];
        if (give && !(eos && !eos_set) && (size_t) c.ai > (size_t) s->inlen / 16 + 1)
                c.ai = s->inlen / 16 + 1;
        if (give && (size_t) c.ai > left)
                c.ai = (int) left;
        c.flush = fl;
        c.eos = eos;
        return c;
}

static void
run_deflate(struct scn *s)
{
        struct vh_region zr, lr, outr, hr, dr;
        struct isal_zstream *z;
        struct isal_hufftables *ht = NULL;
        struct isal_dict *dstruct = NULL;
        struct feeder fd;
        uint32_t lsz = lbuf_size(s->level, s->lbuf);
        size_t fed = 0, maxao = 0;
        int i, eos_set = 0, faulted = 0, ret = 0, last_flush = 0, dstall = 0;
        unsigned char *chunk = NULL;
        size_t chunk_n = 0;
        const char *why = "cap";

        memset(&fd, 0, sizeof(fd));
        fd.mem = s->mem;
        if (s->mem == MEM_CONTIG) {
                fd.all_r = vh_region_get(s->inlen + 1);
                fd.all = vh_place(&fd.all_r, s->inlen, VH_END, 0);
                memcpy(fd.all, s->in, s->inlen);
        } else if (s->mem == MEM_RECYCLE) {
                size_t mx = s->tail_ai;
                for (i = 0; i < s->ncalls; i++)
                        if ((size_t) s->calls[i].ai > mx)
                                mx = s->calls[i].ai;
                if (mx > (size_t) s->inlen)
                        mx = s->inlen;
                fd.ring[0] = vh_region_get(mx + 1);
                fd.ring[1] = vh_region_get(mx + 1);
        }
        for (i = 0; i < s->ncalls; i++)
                if ((size_t) s->calls[i].ao > maxao)
                        maxao = s->calls[i].ao;
        if ((size_t) s->tail_ao > maxao)
                maxao = s->tail_ao;
        if (s->adapt && maxao < 70000)
                maxao = 70000;
        /* the context sits flush against a LEADING inaccessible page (reads before the struct fault) */
        zr = vh_region_get(sizeof(*z) + 64);
        z = (struct isal_zstream *) vh_place(&zr, sizeof(*z), VH_START, 0);
        prefill(z, sizeof(*z), s->prefill & 15);
        lr = vh_region_get(lsz + 64);
        outr = vh_region_get(maxao + 64);
        if (s->api == API_DEFLATE)
                isal_deflate_init(z);
        else
                isal_deflate_stateless_init(z);
        /* the caller owns the i/o fields; init leaves them as they were (garbage after our pre-fill) */
        z->next_in = NULL;
        z->avail_in = 0;
        z->next_out = NULL;
        z->avail_out = 0;
        z->level = s->level;
        z->gzip_flag = s->wrap;
        z->hist_bits = (s->prefill & 512) ? 0 : s->hist_bits; /* 512: the window size is chosen after the dictionary calls (only the level has to be set before them) */
        if (s->lbuf != 5 && lsz > 0) {
                z->level_buf = vh_place(&lr, lsz, VH_END, s->lbuf >= 7 ? (s->lbuf == 9 ? 2 : s->lbuf == 10 ? 3 : 1) : 0);
                prefill(z->level_buf, lsz, s->prefill & 15);
                z->level_buf_size = lsz;
        } else {
                z->level_buf = NULL;
                z->level_buf_size = s->lbuf == 5 ? 0 : lsz;
        }
        if (s->table == 1)
                isal_deflate_set_hufftables(z, NULL, IGZIP_HUFFTABLE_STATIC);
        else if (s->table >= 2 && s->table <= 5) {
                struct isal_huff_histogram *h = calloc(1, sizeof(*h));
                hr = vh_region_get(sizeof(*ht));
                ht = (struct isal_hufftables *) vh_place(&hr, sizeof(*ht), VH_END, 0);
                if (s->table <= 3)
                        isal_update_histogram(s->in, s->inlen, h);
                else { /* explicit histogram carried in the dict field: 316 counts x 6 bytes little endian */
                        int q, b;
                        for (q = 0; q < ISAL_DEF_LIT_LEN_SYMBOLS + ISAL_DEF_DIST_SYMBOLS && q * 6 + 5 < s->dictlen; q++) {
                                uint64_t v = 0;
                                for (b = 5; b >= 0; b--)
                                        v = (v << 8) | s->dict[q * 6 + b];
                                if (q < ISAL_DEF_LIT_LEN_SYMBOLS)
                                        h->lit_len_histogram[q] = v;
                                else
                                        h->dist_histogram[q - ISAL_DEF_LIT_LEN_SYMBOLS] = v;
                        }
                }
                if (s->table == 2 || s->table == 4)
                        isal_create_hufftables(ht, h);
                else
                        isal_create_hufftables_subset(ht, h);
                isal_deflate_set_hufftables(z, ht, IGZIP_HUFFTABLE_CUSTOM);
                free(h);
        }
        fprintf(out, "{\"e\":\"Begin\",\"scn\":%d}\n", s->id);
        if (s->dictmode == 1 && s->api == API_DEFLATE) {
                int r = isal_deflate_set_dict(z, s->dict, s->dictlen);
                fprintf(out, "{\"e\":\"SetDict\",\"scn\":%d,\"ret\":%d}\n", s->id, r);
        } else if (s->dictmode == 2 && s->api == API_DEFLATE) {
                int r1, r2;
                dr = vh_region_get(sizeof(struct isal_dict));
                dstruct = (struct isal_dict *) vh_place(&dr, sizeof(struct isal_dict), VH_END, 0);
                prefill(dstruct, sizeof(*dstruct), s->prefill & 15);
                r1 = isal_deflate_process_dict(z, dstruct, s->dict, s->dictlen);
                r2 = isal_deflate_reset_dict(z, dstruct);
                fprintf(out, "{\"e\":\"SetDict\",\"scn\":%d,\"ret\":%d,\"ret2\":%d}\n", s->id, r1, r2);
        }
        if (s->prefill & 512)
                z->hist_bits = s->hist_bits;
        for (i = 0; i < s->cap; i++) {
                struct call c;
                uint32_t ai0, ti0, to0, sv_level, sv_lbs;
                unsigned char *o, *ni0, *no0, *sv_lb;
                int st0 = z->internal_state.state, badkind;
                if (s->adapt)
                        c = adapt_choose(s, z, fed, eos_set, i);
                else if (i < s->ncalls)
                        c = s->calls[i];
                else {
                        c.ai = s->tail_ai;
                        c.ao = s->tail_ao;
                        c.flush = 0;
                        c.eos = 1;
                }
                if (s->api == API_DEFLATE_STATELESS) {
                        c.ai = s->inlen;
                }
                if (z->avail_in == 0 && fed < (size_t) s->inlen && c.ai > 0 && !eos_set) {
                        chunk_n = (size_t) c.ai < s->inlen - fed ? (size_t) c.ai : s->inlen - fed;
                        chunk = feed_chunk(&fd, s->in, fed, chunk_n);
                        z->next_in = chunk;
                        z->avail_in = chunk_n;
                        fed += chunk_n;
                }
                /* an invalid-parameter call injected into the stream (flush field bits 4..7): 1 level 4, 2 no level buffer, 3 level buffer one
                 * byte short of the minimum, 4 level 9; the parameters are put back after the call */
                badkind = 0;
                if ((c.flush >> 4) >= 1 && (c.flush >> 4) <= 4 && (c.flush & 15) <= 2) {
                        badkind = c.flush >> 4;
                        c.flush &= 15;
                }
                sv_level = z->level;
                sv_lb = z->level_buf;
                sv_lbs = z->level_buf_size;
                if (badkind == 1)
                        z->level = 4;
                else if (badkind == 4)
                        z->level = 9;
                else if (badkind == 2) {
                        z->level_buf = NULL;
                        z->level_buf_size = 0;
                } else if (badkind == 3)
                        z->level_buf_size = lbuf_size(s->level, 0) - 1;
                if (c.eos && fed == (size_t) s->inlen)
                        eos_set = c.eos; /* any non-zero value announces the end of the stream */
                z->end_of_stream = eos_set;
                z->flush = c.flush;
                last_flush = c.flush;
                o = vh_place(&outr, c.ao, VH_END, 0);
                vh_window_fill(&outr, o, VH_CANARY);
                if (s->prefill & 256) /* the prior contents of the output buffer are part of the scenario */
                        prefill(o, c.ao, s->prefill & 15);
                z->next_out = o;
                z->avail_out = c.ao;
                ai0 = z->avail_in;
                ti0 = z->total_in;
                to0 = z->total_out;
                ni0 = z->next_in;
                no0 = z->next_out;
                faulted = 0;
                VH_TRY { ret = s->api == API_DEFLATE ? isal_deflate(z) : isal_deflate_stateless(z); }
                VH_CATCH { faulted = 1; }
                VH_DONE;
                total_calls++;
                if (badkind && !faulted) {
                        z->level = sv_level;
                        z->level_buf = sv_lb;
                        z->level_buf_size = sv_lbs;
                }
                if (faulted) {
                        total_faults++;
                        fprintf(out, "{\"e\":\"Fault\",\"scn\":%d,\"seq\":%d,\"flush\":%d,\"eos\":%d,\"ai\":%u,\"ao\":%d,\"addr_rel_in\":%ld,\"addr_rel_ctx\":%ld,\"st0\":\"%s\"}\n", s->id, i, c.flush, eos_set, ai0, c.ao,
                                (long) ((unsigned char *) vh_fault_addr - (chunk ? chunk : (unsigned char *) z)),
                                (long) ((unsigned char *) vh_fault_addr - (unsigned char *) z), zstate_name(st0));
                        why = "fault";
                        break;
                }
                {
                        uint32_t cns = ai0 - z->avail_in, prd = c.ao - z->avail_out;
                        long canary = vh_window_intact(&outr, o, VH_CANARY) ? 0x7fffffff : -1; /* writes inside [0, avail_out) are the callee's right; the end is a guard page */
                        /* everything outside the avail_out bytes offered must be untouched (the end is flush against a guard page) */
                        fprintf(out,
                                "{\"e\":\"Call\",\"scn\":%d,\"seq\":%d,\"flush\":%d,\"eos\":%d,\"ai\":%u,\"ao\":%d,\"ret\":%d,\"c\":%u,\"p\":%u,"
                                "\"ti\":%u,\"to\":%u,\"dti\":%u,\"dto\":%u,\"dni\":%ld,\"dno\":%ld,\"st\":\"%s\",\"st0\":\"%s\",\"hist\":%d,\"bv\":%u,\"bp\":%u,"
                                "\"touched_outside\":%d,\"sh\":%d,\"b0\":\"%s\",\"t0\":%d,\"b1\":\"%s\",\"t1\":%d,\"bad\":%d",
                                s->id, i, c.flush, eos_set, ai0, c.ao, ret, cns, prd, z->total_in, z->total_out, z->total_in - ti0,
                                z->total_out - to0, (long) (z->next_in - ni0), (long) (z->next_out - no0),
                                zstate_name(z->internal_state.state), zstate_name(st0), z->internal_state.has_hist,
                                z->internal_state.b_bytes_valid, z->internal_state.b_bytes_processed, canary != 0x7fffffff,
                                /* try to install a table (the static one and the custom one in turn, so that an installation accepted
                                 * with a block open changes the code in mid-block): must be refused while a block is open */
                                ht && ret == COMP_OK && s->api == API_DEFLATE
                                        ? ((i & 1) ? isal_deflate_set_hufftables(z, ht, IGZIP_HUFFTABLE_CUSTOM) : isal_deflate_set_hufftables(z, NULL, IGZIP_HUFFTABLE_STATIC))
                                        : 99,
                                zstate_name(st0 >= ZSTATE_TMP_NEW_HDR ? st0 - (ZSTATE_TMP_NEW_HDR - ZSTATE_NEW_HDR) : st0), st0 >= ZSTATE_TMP_NEW_HDR,
                                zstate_name((int) z->internal_state.state >= ZSTATE_TMP_NEW_HDR ? (int) z->internal_state.state - (ZSTATE_TMP_NEW_HDR - ZSTATE_NEW_HDR) : (int) z->internal_state.state),
                                (int) z->internal_state.state >= ZSTATE_TMP_NEW_HDR, badkind);
                        log_bytes("out", o, prd <= (uint32_t) c.ao ? prd : 0);
                        fprintf(out, "}\n");
                }
                if (z->avail_in == 0 && chunk) {
                        release_chunk(&fd, chunk, chunk_n);
                        chunk = NULL;
                }
                if (ret != COMP_OK && !badkind) { /* (an injected invalid-parameter call is expected to fail; the stream goes on) */
                        why = "error";
                        break;
                }
                if (s->dictmode == 4 && s->api == API_DEFLATE && z->internal_state.state != ZSTATE_END &&
                    (z->internal_state.state != ZSTATE_NEW_HDR || z->internal_state.b_bytes_valid != z->internal_state.b_bytes_processed)) {
                        /* wrong state (block open / input buffered): both dictionary calls must be refused */
                        int r1 = isal_deflate_set_dict(z, s->dict, s->dictlen), r2 = 1;
                        if (!dstruct) {
                                dr = vh_region_get(sizeof(struct isal_dict));
                                dstruct = (struct isal_dict *) vh_place(&dr, sizeof(struct isal_dict), VH_END, 0);
                                memset(dstruct, 0, sizeof(*dstruct));
                                isal_deflate_process_dict(z, dstruct, s->dict, s->dictlen);
                        }
                        r2 = isal_deflate_reset_dict(z, dstruct);
                        fprintf(out, "{\"e\":\"SetDict\",\"scn\":%d,\"seq\":%d,\"wrong_state\":1,\"ret\":%d,\"ret2\":%d,\"st\":\"%s\"}\n", s->id, i, r1, r2,
                                zstate_name(z->internal_state.state));
                }
                if ((s->dictmode == 6 || s->dictmode == 7) && s->api == API_DEFLATE && (s->prefill >> 4) == i + 1) {
                        int r1, r2 = 0;
                        if (s->dictmode == 6)
                                r1 = isal_deflate_set_dict(z, s->dict, s->dictlen);
                        else {
                                dr = vh_region_get(sizeof(struct isal_dict));
                                dstruct = (struct isal_dict *) vh_place(&dr, sizeof(struct isal_dict), VH_END, 0);
                                memset(dstruct, 0, sizeof(*dstruct));
                                r1 = isal_deflate_process_dict(z, dstruct, s->dict, s->dictlen);
                                r2 = isal_deflate_reset_dict(z, dstruct);
                        }
                        fprintf(out, "{\"e\":\"SetDict\",\"scn\":%d,\"seq\":%d,\"wrong_state\":0,\"ret\":%d,\"ret2\":%d,\"st\":\"%s\",\"ti\":%u,\"to\":%u}\n", s->id, i, r1,
                                r2, zstate_name(z->internal_state.state), z->total_in, z->total_out);
                }
                if (s->api == API_DEFLATE_STATELESS || (s->api == API_DEFLATE_STATELESS_MULTI && i + 1 >= s->ncalls)) {
                        why = "oneshot";
                        break;
                }
                if (s->api == API_DEFLATE_STATELESS_MULTI)
                        continue;
                if (ai0 == z->avail_in && (uint32_t) c.ao == z->avail_out && c.ao > 0 && st0 == (int) z->internal_state.state &&
                    (ai0 > 0 || eos_set || c.flush) && i >= s->ncalls)
                        dstall++;
                else
                        dstall = 0;
                if (dstall >= 4) {
                        why = "stalled";
                        break;
                }
                if (z->internal_state.state == ZSTATE_END) {
                        why = "end";
                        break;
                }
        }
        (void) last_flush;
        fprintf(out, "{\"e\":\"End\",\"scn\":%d,\"why\":\"%s\",\"calls\":%d,\"fed\":%zu,\"state\":\"%s\"}\n", s->id, why, i + (i < s->cap),
                fed, faulted ? "?" : zstate_name(z->internal_state.state));
        if (fd.have_cur)
                vh_region_free(&fd.cur_r);
        if (s->mem == MEM_CONTIG)
                vh_region_put(&fd.all_r);
        if (s->mem == MEM_RECYCLE) {
                vh_region_put(&fd.ring[0]);
                vh_region_put(&fd.ring[1]);
        }
        if (ht)
                vh_region_put(&hr);
        if (dstruct)
                vh_region_put(&dr);
        vh_region_put(&zr);
        vh_region_put(&lr);
        vh_region_put(&outr);
}

/* adaptive schedule for the decompressor: least-visited (room class, input hand-over class) from the current (block_state, output staged) */
static unsigned short icov[32][2][3][4];
static struct call
adapt_choose_inflate(struct scn *s, struct inflate_state *st, size_t fed, int i)
{
        static const int big[] = { 4, 16, 100, 258, 300, 5000, 70000 };
        struct call c;
        int bs = st->block_state & 31, pnd = st->tmp_out_valid != st->tmp_out_processed, room, give, best = 1 << 30, pr = 2, pg = 3;
        size_t left = s->inlen - fed;
        c.flush = 0;
        c.eos = 0;
        if (i > s->cap / 2) {
                c.ai = (int) left;
                c.ao = 1 << 16;
                return c;
        }
        for (room = 0; room < 3; room++)
                for (give = 0; give < 4; give++) {
                        int n;
                        if (give && (left == 0 || st->avail_in > 0))
                                continue;
                        if (give == 3 && left > 40 && i < s->cap / 3)
                                continue; /* keep the stream going: the rest of the input only when little is left */
                        n = icov[bs][pnd][room][give] * 4 + (int) (arnd() & 3);
                        if (n < best) {
                                best = n;
                                pr = room;
                                pg = give;
                        }
                }
        icov[bs][pnd][pr][pg]++;
        c.ao = pr == 0 ? 0 : pr == 1 ? 1 + (int) (arnd() % 3) : big[arnd() % 7];
        c.ai = pg == 0 ? 0 : pg == 1 ? 1 : pg == 2 ? 2 + (int) (arnd() % 39) : (int) left;
        if ((size_t) c.ai > left)
                c.ai = (int) left;
        return c;
}

static void
run_inflate(struct scn *s)
{
        struct vh_region sr, outr;
        struct inflate_state *st;
        struct feeder fd;
        size_t fed = 0, maxao = 0;
        int i, faulted = 0, ret = 0, starve = 0, stalled = 0;
        unsigned char *chunk = NULL;
        size_t chunk_n = 0;
        const char *why = "cap";

        memset(&fd, 0, sizeof(fd));
        fd.mem = s->mem;
        if (s->mem == MEM_CONTIG) {
                fd.all_r = vh_region_get(s->inlen + 1);
                fd.all = vh_place(&fd.all_r, s->inlen, VH_END, 0);
                memcpy(fd.all, s->in, s->inlen);
        } else if (s->mem == MEM_RECYCLE) {
                size_t mx = s->tail_ai;
                for (i = 0; i < s->ncalls; i++)
                        if ((size_t) s->calls[i].ai > mx)
                                mx = s->calls[i].ai;
                if (mx > (size_t) s->inlen)
                        mx = s->inlen;
                fd.ring[0] = vh_region_get(mx + 1);
                fd.ring[1] = vh_region_get(mx + 1);
        }
        for (i = 0; i < s->ncalls; i++)
                if ((size_t) s->calls[i].ao > maxao)
                        maxao = s->calls[i].ao;
        if ((size_t) s->tail_ao > maxao)
                maxao = s->tail_ao;
        if (s->adapt && maxao < 70000)
                maxao = 70000;
        sr = vh_region_get(sizeof(*st) + 64);
        st = (struct inflate_state *) vh_place(&sr, sizeof(*st), VH_START, 0);
        prefill(st, sizeof(*st), s->prefill & 15);
        outr = vh_region_get(maxao + 64);
        isal_inflate_init(st);
        st->next_in = NULL;
        st->avail_in = 0;
        st->crc_flag = s->wrap;
        st->hist_bits = s->hist_bits;
        fprintf(out, "{\"e\":\"Begin\",\"scn\":%d}\n", s->id);
        if (s->dictmode == 1) {
                int r = isal_inflate_set_dict(st, s->dict, s->dictlen);
                fprintf(out, "{\"e\":\"SetDict\",\"scn\":%d,\"ret\":%d}\n", s->id, r);
        }
        for (i = 0; i < s->cap; i++) {
                struct call c;
                uint32_t ai0, to0;
                int bs0, wf0, pnd0, buf0;
                unsigned char *o;
                if (s->adapt && s->api == API_INFLATE)
                        c = adapt_choose_inflate(s, st, fed, i);
                else if (i < s->ncalls)
                        c = s->calls[i];
                else {
                        c.ai = s->tail_ai;
                        c.ao = s->tail_ao;
                        c.flush = 0;
                        c.eos = 0;
                }
                if (s->api == API_INFLATE_STATELESS)
                        c.ai = s->inlen;
                if (st->avail_in == 0 && fed < (size_t) s->inlen && c.ai > 0) {
                        chunk_n = (size_t) c.ai < s->inlen - fed ? (size_t) c.ai : s->inlen - fed;
                        chunk = feed_chunk(&fd, s->in, fed, chunk_n);
                        st->next_in = chunk;
                        st->avail_in = chunk_n;
                        fed += chunk_n;
                }
                o = vh_place(&outr, c.ao, VH_END, 0);
                vh_window_fill(&outr, o, VH_CANARY);
                if (s->prefill & 256)
                        prefill(o, c.ao, s->prefill & 15);
                st->next_out = o;
                st->avail_out = c.ao;
                ai0 = st->avail_in;
                to0 = st->total_out;
                faulted = 0;
                bs0 = st->block_state;
                wf0 = st->wrapper_flag != 0;
                pnd0 = st->tmp_out_valid != st->tmp_out_processed;
                buf0 = st->read_in_length > 0 || st->tmp_in_size > 0;
                VH_TRY { ret = s->api == API_INFLATE ? isal_inflate(st) : isal_inflate_stateless(st); }
                VH_CATCH { faulted = 1; }
                VH_DONE;
                total_calls++;
                if (faulted) {
                        total_faults++;
                        fprintf(out, "{\"e\":\"Fault\",\"scn\":%d,\"seq\":%d,\"addr_rel_in\":%ld,\"addr_rel_ctx\":%ld}\n", s->id, i,
                                (long) ((unsigned char *) vh_fault_addr - (chunk ? chunk : (unsigned char *) st)),
                                (long) ((unsigned char *) vh_fault_addr - (unsigned char *) st));
                        why = "fault";
                        break;
                }
                {
                        uint32_t cns = ai0 - st->avail_in, prd = c.ao - st->avail_out;
                        long canary = vh_window_intact(&outr, o, VH_CANARY) ? 0x7fffffff : -1; /* writes inside [0, avail_out) are the callee's right; the end is a guard page */
                        fprintf(out,
                                "{\"e\":\"Call\",\"scn\":%d,\"seq\":%d,\"ai\":%u,\"ao\":%d,\"ret\":%d,\"c\":%u,\"p\":%u,\"to\":%u,\"dto\":%u,"
                                "\"bs\":\"%s\",\"ril\":%d,\"ain\":%u,\"fed\":%zu,\"crc_lo\":%u,\"crc_hi\":%u,\"touched_outside\":%d,"
                                "\"bs0\":\"%s\",\"wf0\":%d,\"pnd0\":%d,\"buf0\":%d,\"wf\":%d,\"pnd\":%d,\"buf\":%d",
                                s->id, i, ai0, c.ao, ret, cns, prd, st->total_out, st->total_out - to0, bstate_name(st->block_state),
                                st->read_in_length, st->avail_in, fed, st->crc & 0xffff, st->crc >> 16, canary != 0x7fffffff,
                                bstate_name(bs0), wf0, pnd0, buf0, st->wrapper_flag != 0, st->tmp_out_valid != st->tmp_out_processed,
                                st->read_in_length > 0 || st->tmp_in_size > 0);
                        log_bytes("out", o, prd <= (uint32_t) c.ao ? prd : 0);
                        fprintf(out, "}\n");
                        if (ret == ISAL_NEED_DICT && s->dictmode == 2) {
                                int r = isal_inflate_set_dict(st, s->dict, s->dictlen);
                                fprintf(out, "{\"e\":\"SetDict\",\"scn\":%d,\"ret\":%d}\n", s->id, r);
                                continue;
                        }
                        if (cns == 0 && prd == 0 && fed == (size_t) s->inlen && st->avail_in == 0 && c.ao > 0)
                                starve++;
                        else
                                starve = 0;
                        if (cns == 0 && prd == 0 && c.ao > 0 && st->avail_in > 0 && ret == 0)
                                stalled++; /* input and room available, nothing happens */
                        else
                                stalled = 0;
                }
                if (st->avail_in == 0 && chunk) {
                        release_chunk(&fd, chunk, chunk_n);
                        chunk = NULL;
                }
                if (ret < 0) {
                        why = "error";
                        break;
                }
                if (s->api == API_INFLATE_STATELESS) {
                        why = "oneshot";
                        break;
                }
                if (st->block_state == ISAL_BLOCK_FINISH) {
                        why = "finish";
                        break;
                }
                if (starve >= 2) {
                        why = "starved"; /* all input given, space offered twice, nothing happens: stream incomplete */
                        break;
                }
                if (stalled >= 3) {
                        why = "stalled";
                        break;
                }
        }
        fprintf(out, "{\"e\":\"End\",\"scn\":%d,\"why\":\"%s\",\"calls\":%d,\"fed\":%zu,\"state\":\"%s\"}\n", s->id, why, i + (i < s->cap), fed,
                faulted ? "?" : bstate_name(st->block_state));
        if (fd.have_cur)
                vh_region_free(&fd.cur_r);
        if (s->mem == MEM_CONTIG)
                vh_region_put(&fd.all_r);
        if (s->mem == MEM_RECYCLE) {
                vh_region_put(&fd.ring[0]);
                vh_region_put(&fd.ring[1]);
        }
        vh_region_put(&sr);
        vh_region_put(&outr);
}

int
main(int argc, char **argv)
{
        FILE *in = fopen(argv[1], "r");
        int n, k, j;
        out = fopen(argv[2], "w");
        if (!in || !out)
                return 3;
        if (argc > 3)
                vh_rng_s = (uint32_t) atoi(argv[3]);
        vh_init((size_t) 1 << 42);
        n = vh_rd(in);
        for (k = 0; k < n; k++) {
                struct scn s;
                s.id = vh_rd(in);
                s.api = vh_rd(in);
                s.level = vh_rd(in);
                s.wrap = vh_rd(in);
                s.hist_bits = vh_rd(in);
                s.table = vh_rd(in);
                s.lbuf = vh_rd(in);
                s.mem = vh_rd(in);
                s.prefill = vh_rd(in);
                s.dictmode = vh_rd(in);
                s.dictlen = vh_rd(in);
                s.inlen = vh_rd(in);
                s.ncalls = vh_rd(in);
                s.tail_ai = vh_rd(in);
                s.tail_ao = vh_rd(in);
                s.cap = vh_rd(in);
                s.adapt = 0;
                if (s.ncalls < 0) {
                        s.adapt = 1;
                        if (!arng)
                                arng = (uint32_t) -s.ncalls | 1;
                        s.ncalls = 0;
                }
                s.dict = vh_rd_bytes(in, s.dictlen);
                s.in = vh_rd_bytes(in, s.inlen);
                s.calls = malloc(sizeof(struct call) * (s.ncalls ? s.ncalls : 1));
                for (j = 0; j < s.ncalls; j++) {
                        s.calls[j].ai = vh_rd(in);
                        s.calls[j].ao = vh_rd(in);
                        s.calls[j].flush = vh_rd(in);
                        s.calls[j].eos = vh_rd(in);
                }
                if (s.api == API_DEFLATE || s.api == API_DEFLATE_STATELESS || s.api == API_DEFLATE_STATELESS_MULTI)
                        run_deflate(&s);
                else
                        run_inflate(&s);
                free(s.dict);
                free(s.in);
                free(s.calls);
        }
        fprintf(out, "{\"e\":\"Summary\",\"calls\":%ld,\"faults\":%ld}\n", total_calls, total_faults);
        fclose(out);
        return 0;
}
