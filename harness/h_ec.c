/* C03 / C13: replay TLC-generated erasure-code vectors into every encode / dot-product / update /
 * multiply-accumulate entry point, for every len 0..N (expected = prefix of the vector), several
 * placements (buffer end flush against an inaccessible page, start flush, interior with offsets).
 * Expected bytes come from the vector file (written by TLC from spec/EC.tla). */
#include "vh.h"
#include "erasure_code.h"
#include "gf_vect_mul.h"

#define W __attribute__((weak))
typedef void (*enc_fn)(int, int, int, unsigned char *, unsigned char **, unsigned char **);
typedef void (*upd_fn)(int, int, int, int, unsigned char *, unsigned char *, unsigned char **);
typedef void (*dot1_fn)(int, int, unsigned char *, unsigned char **, unsigned char *);
typedef void (*dotn_fn)(int, int, unsigned char *, unsigned char **, unsigned char **);
typedef void (*mad1_fn)(int, int, int, unsigned char *, unsigned char *, unsigned char *);
typedef void (*madn_fn)(int, int, int, unsigned char *, unsigned char *, unsigned char **);
typedef void (*init_fn)(int, int, unsigned char *, unsigned char *);

extern void ec_init_tables_gfni(int, int, unsigned char *, unsigned char *) W;
#define DECL_ISA(isa)                                                                              \
        extern void ec_encode_data_##isa(int, int, int, unsigned char *, unsigned char **,        \
                                         unsigned char **) W;                                      \
        extern void ec_encode_data_update_##isa(int, int, int, int, unsigned char *,               \
                                                unsigned char *, unsigned char **) W;              \
        extern void gf_vect_dot_prod_##isa(int, int, unsigned char *, unsigned char **,            \
                                           unsigned char *) W;                                     \
        extern void gf_2vect_dot_prod_##isa(int, int, unsigned char *, unsigned char **,           \
                                            unsigned char **) W;                                   \
        extern void gf_3vect_dot_prod_##isa(int, int, unsigned char *, unsigned char **,           \
                                            unsigned char **) W;                                   \
        extern void gf_4vect_dot_prod_##isa(int, int, unsigned char *, unsigned char **,           \
                                            unsigned char **) W;                                   \
        extern void gf_5vect_dot_prod_##isa(int, int, unsigned char *, unsigned char **,           \
                                            unsigned char **) W;                                   \
        extern void gf_6vect_dot_prod_##isa(int, int, unsigned char *, unsigned char **,           \
                                            unsigned char **) W;                                   \
        extern void gf_vect_mad_##isa(int, int, int, unsigned char *, unsigned char *,             \
                                      unsigned char *) W;                                          \
        extern void gf_2vect_mad_##isa(int, int, int, unsigned char *, unsigned char *,            \
                                       unsigned char **) W;                                        \
        extern void gf_3vect_mad_##isa(int, int, int, unsigned char *, unsigned char *,            \
                                       unsigned char **) W;                                        \
        extern void gf_4vect_mad_##isa(int, int, int, unsigned char *, unsigned char *,            \
                                       unsigned char **) W;                                        \
        extern void gf_5vect_mad_##isa(int, int, int, unsigned char *, unsigned char *,            \
                                       unsigned char **) W;                                        \
        extern void gf_6vect_mad_##isa(int, int, int, unsigned char *, unsigned char *,            \
                                       unsigned char **) W;
DECL_ISA(sse)
DECL_ISA(avx)
DECL_ISA(avx2)
DECL_ISA(avx512)
DECL_ISA(avx512_gfni)
DECL_ISA(avx2_gfni)

struct isa {
        const char *name;
        int gfni;   /* 8-byte tables */
        int minlen; /* documented minimum length of the raw kernels */
        enc_fn enc;
        upd_fn upd;
        dot1_fn dot1;
        dotn_fn dotn[7];
        mad1_fn mad1;
        madn_fn madn[7];
};
#define ISA(isa, g, ml)                                                                            \
        {                                                                                          \
                #isa, g, ml, ec_encode_data_##isa, ec_encode_data_update_##isa,                    \
                        gf_vect_dot_prod_##isa,                                                    \
                        { 0, 0, gf_2vect_dot_prod_##isa, gf_3vect_dot_prod_##isa,                  \
                          gf_4vect_dot_prod_##isa, gf_5vect_dot_prod_##isa,                        \
                          gf_6vect_dot_prod_##isa },                                               \
                        gf_vect_mad_##isa,                                                         \
                {                                                                                  \
                        0, 0, gf_2vect_mad_##isa, gf_3vect_mad_##isa, gf_4vect_mad_##isa,          \
                                gf_5vect_mad_##isa, gf_6vect_mad_##isa                             \
                }                                                                                  \
        }
static struct isa isas[] = {
        { "base", 0, 0, ec_encode_data_base, ec_encode_data_update_base, gf_vect_dot_prod_base, { 0 },
          gf_vect_mad_base, { 0 } },
        { "dispatched", -1, 0, ec_encode_data, ec_encode_data_update, gf_vect_dot_prod, { 0 },
          gf_vect_mad, { 0 } },
        ISA(sse, 0, 16),
        ISA(avx, 0, 16),
        ISA(avx2, 0, 32),
        ISA(avx512, 0, 64),
        ISA(avx512_gfni, 1, 0),
        ISA(avx2_gfni, 1, 0),
};
#define NISA (sizeof(isas) / sizeof(isas[0]))

#define MAXK 256
#define MAXR 16
static int k, rows, N;
static unsigned char *coef, *src[MAXK], *expv[MAXR];
static struct vh_region rsrc[MAXK], rdst[MAXR], rtbl;
static unsigned char tbl_nib[MAXK * MAXR * 32], tbl_gfni[MAXK * MAXR * 8], tbl_disp[MAXK * MAXR * 32];
static long calls, mism, covered_entry[NISA][16];
static FILE *out;
static int vec_id;
static const char *only_isa;

static void
report(const char *what, const char *entry, const char *isa, int len, int placement, int off, int row,
       int pos)
{
        mism++;
        if (mism <= 40)
                fprintf(out,
                        "{\"e\":\"mismatch\",\"what\":\"%s\",\"entry\":\"%s\",\"isa\":\"%s\",\"vec\":%d,"
                        "\"len\":%d,\"placement\":%d,\"off\":%d,\"row\":%d,\"pos\":%d}\n",
                        what, entry, isa, vec_id, len, placement, off, row, pos);
}

/* lay out sources and destinations for (len, placement, off); returns pointers */
static void
place(int len, int placement, int off, unsigned char **s, unsigned char **d, int nrows, int prefill_from_exp,
      unsigned char **prefill)
{
        int j, r;
        for (j = 0; j < k; j++) {
                int o = placement == VH_MID ? (off + 3 * j) % 64 : 0;
                vh_fill(&rsrc[j], VH_CANARY);
                s[j] = vh_place(&rsrc[j], len, placement, o);
                memcpy(s[j], src[j], len);
        }
        for (r = 0; r < nrows; r++) {
                int o = placement == VH_MID ? (off * 5 + 7 * r + 3) % 64 : 0;
                vh_fill(&rdst[r], VH_CANARY);
                d[r] = vh_place(&rdst[r], len, placement, o);
                if (prefill_from_exp)
                        memcpy(d[r], prefill[r], len);
        }
}

static int refused; /* the raw kernel returned non-zero for a length below its documented minimum */
typedef int (*idot1_fn)(int, int, unsigned char *, unsigned char **, unsigned char *);
typedef int (*idotn_fn)(int, int, unsigned char *, unsigned char **, unsigned char **);
typedef int (*imad1_fn)(int, int, int, unsigned char *, unsigned char *, unsigned char *);
typedef int (*imadn_fn)(int, int, int, unsigned char *, unsigned char *, unsigned char **);
static long below_min_calls, below_min_accepted;
static void
check(const char *entry, const char *isa, int len, int placement, int off, unsigned char **s,
      unsigned char **d, int row0, int nrows, unsigned char **want, int faulted)
{
        int j, r, i;
        calls++;
        if (faulted) {
                report("fault", entry, isa, len, placement, off, -1, -1);
                return;
        }
        for (r = 0; r < nrows; r++) {
                long bad;
                for (i = 0; i < len && !refused; i++) /* (a kernel that refused a length below its documented minimum: only the memory rules apply) */
                        if (d[r][i] != want[row0 + r][i]) {
                                report("wrong-byte", entry, isa, len, placement, off, row0 + r, i);
                                break;
                        }
                bad = vh_outside_intact(&rdst[r], d[r], len, VH_CANARY);
                if (bad != 0x7fffffff)
                        report("write-outside-destination", entry, isa, len, placement, off, row0 + r,
                               (int) bad);
        }
        for (j = 0; j < k; j++) {
                if (memcmp(s[j], src[j], len) != 0)
                        report("source-modified", entry, isa, len, placement, off, j, -1);
                if (vh_outside_intact(&rsrc[j], s[j], len, VH_CANARY) != 0x7fffffff)
                        report("write-outside-source", entry, isa, len, placement, off, j, -1);
        }
}

static unsigned char *
tables_for(struct isa *a)
{
        return a->gfni == 1 ? tbl_gfni : a->gfni == -1 ? tbl_disp : tbl_nib;
}
static int
tstride(struct isa *a, int disp_is_gfni)
{
        return a->gfni == 1 ? 8 : a->gfni == -1 ? (disp_is_gfni ? 8 : 32) : 32;
}

/* one (len, placement, off) point of an encode vector over every entry point */
static void
enc_point(int len, int placement, int off, int disp_is_gfni)
{
        unsigned char *s[MAXK], *d[MAXR];
        unsigned ia;
        int n, faulted, below;
        for (ia = 0; ia < NISA; ia++) {
                struct isa *a = &isas[ia];
                unsigned char *t = tables_for(a);
                int st = tstride(a, disp_is_gfni);
                if (only_isa && strcmp(only_isa, a->name))
                        continue;
                if (a->enc) {
                        place(len, placement, off, s, d, rows, 0, NULL);
                        faulted = 0;
                        VH_TRY { a->enc(len, k, rows, t, s, d); }
                        VH_CATCH { faulted = 1; }
                        VH_DONE;
                        check("ec_encode_data", a->name, len, placement, off, s, d, 0, rows, expv, faulted);
                        covered_entry[ia][0]++;
                }
                /* raw kernels: from the documented minimum length on they must produce the result; below it they may refuse (non-zero
                 * return, nothing written outside the destination) - but whatever they accept must be right */
                if (a->gfni == -1)
                        continue;
                below = len < a->minlen;
                if (a->dot1) { /* each row alone through the 1-vector kernel */
                        int r = (len + off) % rows, ret = 0;
                        place(len, placement, off, s, d, 1, 0, NULL);
                        faulted = 0;
                        VH_TRY { ret = ((idot1_fn) a->dot1)(len, k, t + r * k * st, s, d[0]); }
                        VH_CATCH { faulted = 1; }
                        VH_DONE;
                        refused = below && ret != 0;
                        below_min_calls += below;
                        below_min_accepted += below && !refused;
                        check("gf_vect_dot_prod", a->name, len, placement, off, s, d, r, 1, expv, faulted);
                        refused = 0;
                        covered_entry[ia][1]++;
                }
                for (n = 2; n <= 6; n++)
                        if (a->dotn[n] && rows >= n) {
                                int r0 = (len + off) % (rows - n + 1);
                                char nm[32];
                                int ret = 0;
                                place(len, placement, off, s, d, n, 0, NULL);
                                faulted = 0;
                                VH_TRY { ret = ((idotn_fn) a->dotn[n])(len, k, t + r0 * k * st, s, d); }
                                VH_CATCH { faulted = 1; }
                                VH_DONE;
                                sprintf(nm, "gf_%dvect_dot_prod", n);
                                refused = below && ret != 0;
                                below_min_calls += below;
                                below_min_accepted += below && !refused;
                                check(nm, a->name, len, placement, off, s, d, r0, n, expv, faulted);
                                refused = 0;
                                covered_entry[ia][n]++;
                        }
        }
}

/* update vectors: order[], expected parity after every step */
static int nsteps, *order;
static unsigned char **exp_after; /* [step][row] -> N bytes ; step 0 = initial (zero) */

static void
upd_point(int len, int placement, int off, int disp_is_gfni)
{
        unsigned char *s[MAXK], *d[MAXR];
        unsigned ia;
        int n, st_i, faulted, below;
        for (ia = 0; ia < NISA; ia++) {
                struct isa *a = &isas[ia];
                unsigned char *t = tables_for(a);
                int st = tstride(a, disp_is_gfni);
                if (only_isa && strcmp(only_isa, a->name))
                        continue;
                for (st_i = 0; st_i < nsteps; st_i++) {
                        int vi = order[st_i];
                        unsigned char **before = &exp_after[st_i * rows], **after = &exp_after[(st_i + 1) * rows];
                        if (a->upd) {
                                place(len, placement, off, s, d, rows, 1, before);
                                faulted = 0;
                                VH_TRY { a->upd(len, k, rows, vi, t, s[vi], d); }
                                VH_CATCH { faulted = 1; }
                                VH_DONE;
                                check("ec_encode_data_update", a->name, len, placement, off, s, d, 0, rows,
                                      after, faulted);
                                covered_entry[ia][8]++;
                        }
                        if (a->gfni == -1)
                                continue;
                        below = len < a->minlen;
                        /* raw kernels on a rotating subset of steps to bound the cost */
                        if ((st_i + len) % 3 != 0)
                                continue;
                        if (a->mad1) {
                                int r = (len + off + st_i) % rows, ret = 0;
                                place(len, placement, off, s, d, 1, 1, before + r);
                                faulted = 0;
                                VH_TRY { ret = ((imad1_fn) a->mad1)(len, k, vi, t + r * k * st, s[vi], d[0]); }
                                VH_CATCH { faulted = 1; }
                                VH_DONE;
                                below_min_calls += below;
                                below_min_accepted += below && ret == 0;
                                /* a refused accumulate must leave the parity as it was */
                                check("gf_vect_mad", a->name, len, placement, off, s, d, r, 1, below && ret != 0 ? before : after, faulted);
                                covered_entry[ia][9]++;
                        }
                        for (n = 2; n <= 6; n++)
                                if (a->madn[n] && rows >= n) {
                                        int r0 = (len + off + st_i) % (rows - n + 1);
                                        char nm[32];
                                        int ret = 0;
                                        place(len, placement, off, s, d, n, 1, before + r0);
                                        faulted = 0;
                                        VH_TRY { ret = ((imadn_fn) a->madn[n])(len, k, vi, t + r0 * k * st, s[vi], d); }
                                        VH_CATCH { faulted = 1; }
                                        VH_DONE;
                                        sprintf(nm, "gf_%dvect_mad", n);
                                        below_min_calls += below;
                                        below_min_accepted += below && ret == 0;
                                        check(nm, a->name, len, placement, off, s, d, r0, n, below && ret != 0 ? before : after, faulted);
                                        covered_entry[ia][8 + n]++;
                                }
                }
        }
}

/* constant multiply: gf_vect_mul{,_base,_sse,_avx}: len must be a multiple of 32 (documented),
 * 32-byte aligned buffers; other lengths must return non-zero and write nothing outside dest[0,len) */
typedef int (*mul_fn)(int, unsigned char *, void *, void *);
extern int gf_vect_mul_sse(int, unsigned char *, void *, void *) W;
extern int gf_vect_mul_avx(int, unsigned char *, void *, void *) W;
static int
mul_base_adapter(int len, unsigned char *t, void *s, void *d)
{
        return gf_vect_mul_base(len, t, s, d);
}
static long mul_calls;
static void
mul_vector(FILE *in)
{
        struct { const char *name; mul_fn f; } fn[] = { { "base", mul_base_adapter }, { "dispatched", gf_vect_mul },
                { "sse", gf_vect_mul_sse }, { "avx", gf_vect_mul_avx } };
        int c = vh_rd(in), n = vh_rd(in), len, i, pl;
        unsigned f;
        unsigned char *s0 = vh_rd_bytes(in, n), *e0 = vh_rd_bytes(in, n), tbl[32];
        struct vh_region rs = vh_region_new(n + 512), rd = vh_region_new(n + 512);
        gf_vect_mul_init(c, tbl);
        for (f = 0; f < 4; f++) {
                if (!fn[f].f || (only_isa && strcmp(only_isa, fn[f].name)))
                        continue;
                for (len = 0; len <= n; len++)
                        for (pl = 0; pl < 3; pl++) {
                                unsigned char *s, *d;
                                int ret = 0, faulted = 0, legal = len % 32 == 0;
                                int off = pl == VH_MID ? 32 * (len % 5) : pl == VH_END && !legal ? 32 - len % 32 : 0;
                                if (!legal && len % 7 != 3 && len > 40)
                                        continue;
                                vh_fill(&rs, VH_CANARY);
                                vh_fill(&rd, VH_CANARY);
                                s = vh_place(&rs, len, pl, off);
                                d = vh_place(&rd, len, pl, off);
                                memcpy(s, s0, len);
                                VH_TRY { ret = fn[f].f(len, tbl, s, d); }
                                VH_CATCH { faulted = 1; }
                                VH_DONE;
                                calls++;
                                mul_calls++;
                                if (faulted) {
                                        report("fault", "gf_vect_mul", fn[f].name, len, pl, off, -1, -1);
                                        continue;
                                }
                                if (legal) {
                                        if (ret != 0)
                                                report("legal-length-rejected", "gf_vect_mul", fn[f].name, len, pl, off, -1, ret);
                                        for (i = 0; i < len; i++)
                                                if (d[i] != e0[i]) {
                                                        report("wrong-byte", "gf_vect_mul", fn[f].name, len, pl, off, 0, i);
                                                        break;
                                                }
                                } else if (ret == 0)
                                        report("illegal-length-accepted", "gf_vect_mul", fn[f].name, len, pl, off, -1, -1);
                                if (vh_outside_intact(&rd, d, len, VH_CANARY) != 0x7fffffff)
                                        report("write-outside-destination", "gf_vect_mul", fn[f].name, len, pl, off, 0, -1);
                                if (memcmp(s, s0, len) || vh_outside_intact(&rs, s, len, VH_CANARY) != 0x7fffffff)
                                        report("source-modified", "gf_vect_mul", fn[f].name, len, pl, off, 0, -1);
                        }
        }
        vh_region_free(&rs);
        vh_region_free(&rd);
        free(s0);
        free(e0);
}

int
main(int argc, char **argv)
{
        FILE *in;
        int nvec, v, j, r, i, len, lenstep;
        if (argc < 4)
                return 3;
        in = fopen(argv[1], "r");
        out = fopen(argv[2], "w");
        lenstep = atoi(argv[3]); /* 1 = every len */
        if (argc > 4 && argv[4][0])
                only_isa = argv[4];
        if (!in || !out)
                return 3;
        vh_init((size_t) 1 << 34);
        nvec = vh_rd(in);
        for (v = 0; v < nvec; v++) {
                int kind = vh_rd(in); /* 0 = encode, 1 = update */
                int disp_is_gfni;
                unsigned char one = 1, t1[32], td[32];
                vec_id = vh_rd(in);
                if (kind == 2) {
                        mul_vector(in);
                        continue;
                }
                k = vh_rd(in);
                rows = vh_rd(in);
                N = vh_rd(in);
                coef = vh_rd_bytes(in, rows * k);
                for (j = 0; j < k; j++) {
                        src[j] = vh_rd_bytes(in, N);
                        rsrc[j] = vh_region_new(N + 512);
                }
                for (r = 0; r < rows; r++)
                        rdst[r] = vh_region_new(N + 512);
                ec_init_tables_base(k, rows, coef, tbl_nib);
                if (ec_init_tables_gfni)
                        ec_init_tables_gfni(k, rows, coef, tbl_gfni);
                ec_init_tables(k, rows, coef, tbl_disp);
                gf_vect_mul_init(1, t1);
                ec_init_tables(1, 1, &one, td);
                disp_is_gfni = memcmp(t1, td, 32) != 0;
                if (kind == 0) {
                        for (r = 0; r < rows; r++)
                                expv[r] = vh_rd_bytes(in, N);
                } else {
                        nsteps = vh_rd(in);
                        order = malloc(sizeof(int) * nsteps);
                        for (i = 0; i < nsteps; i++)
                                order[i] = vh_rd(in);
                        exp_after = malloc(sizeof(char *) * (nsteps + 1) * rows);
                        for (i = 0; i <= nsteps; i++)
                                for (r = 0; r < rows; r++)
                                        exp_after[i * rows + r] = vh_rd_bytes(in, N);
                }
                for (len = 0; len <= N; len += (len < 320 || len > N - 70) ? 1 : lenstep) {
                        int offs = (len * 13 + 5) % 64, o;
                        void (*pt)(int, int, int, int) = kind == 0 ? enc_point : upd_point;
                        pt(len, VH_END, 0, disp_is_gfni);
                        pt(len, VH_START, 0, disp_is_gfni);
                        pt(len, VH_MID, offs, disp_is_gfni);
                        if (len == N || len == 65 || len == 33 || len == N - 1)
                                for (o = 0; o < 64; o++)
                                        pt(len, VH_MID, o, disp_is_gfni);
                }
                for (j = 0; j < k; j++) {
                        vh_region_free(&rsrc[j]);
                        free(src[j]);
                }
                for (r = 0; r < rows; r++)
                        vh_region_free(&rdst[r]);
                free(coef);
        }
        {
                unsigned ia;
                int e;
                fprintf(out, "{\"e\":\"below_min\",\"calls\":%ld,\"accepted\":%ld}\n", below_min_calls, below_min_accepted);
                fprintf(out, "{\"e\":\"summary\",\"mul_calls\":%ld,\"calls\":%ld,\"mismatches\":%ld,\"faults\":%ld,\"entries\":{", mul_calls, calls, mism,
                        vh_faults);
                for (ia = 0; ia < NISA; ia++) {
                        fprintf(out, "%s\"%s\":[", ia ? "," : "", isas[ia].name);
                        for (e = 0; e < 16; e++)
                                fprintf(out, e ? ",%ld" : "%ld", covered_entry[ia][e]);
                        fprintf(out, "]");
                }
                fprintf(out, "}}\n");
        }
        fclose(out);
        return 0;
}
