/* C19: drive the gzip/zlib header writers and the resumable header readers and record what they did.
 * Scenario stream (ints):
 *   1 id text time_lo time_hi xflags os has_extra nextra extra.. has_name nname name.. has_comment ncomment comment.. hcrc nao ao..   (gzip writer)
 *   2 id info level dict_flag id_lo id_hi nao ao..                                                                                   (zlib writer)
 *   3 id kind(0 gzip,1 zlib) nbytes bytes.. nchunks chunk.. name_buf comment_buf extra_buf grow                                      (reader)
 */
#include "vh.h"
#include "igzip_lib.h"
static const char *
hstate_name(int b)
{
        switch (b) {
        case ISAL_BLOCK_NEW_HDR: return "NEW_HDR";
        case ISAL_GZIP_EXTRA_LEN: return "GZIP_EXTRA_LEN";
        case ISAL_GZIP_EXTRA: return "GZIP_EXTRA";
        case ISAL_GZIP_NAME: return "GZIP_NAME";
        case ISAL_GZIP_COMMENT: return "GZIP_COMMENT";
        case ISAL_GZIP_HCRC: return "GZIP_HCRC";
        case ISAL_ZLIB_DICT: return "ZLIB_DICT";
        default: return "?";
        }
}
static FILE *out;

static void
put(const char *k, const unsigned char *b, size_t n)
{
        fprintf(out, ",\"%s\":", k);
        vh_put_bytes(out, b, n);
}

static void
gzip_writer(FILE *in)
{
        int id = vh_rd(in), text = vh_rd(in), tlo = vh_rd(in), thi = vh_rd(in), xfl = vh_rd(in), os = vh_rd(in);
        int has_extra = vh_rd(in), nextra = vh_rd(in), i, nao;
        unsigned char *extra = vh_rd_bytes(in, nextra), *name, *comment;
        int has_name = vh_rd(in), nname = vh_rd(in);
        int has_comment, ncomment, hcrc;
        struct vh_region r = vh_region_get(70000 + 600);
        name = vh_rd_bytes(in, nname);
        has_comment = vh_rd(in);
        ncomment = vh_rd(in);
        comment = vh_rd_bytes(in, ncomment);
        hcrc = vh_rd(in);
        nao = vh_rd(in);
        for (i = 0; i < nao; i++) {
                int ao = vh_rd(in), ret = 0, faulted = 0;
                struct isal_zstream z;
                struct isal_gzip_header h;
                unsigned char *o, *nm = calloc(nname + 1, 1), *cm = calloc(ncomment + 1, 1);
                memcpy(nm, name, nname);
                memcpy(cm, comment, ncomment);
                isal_deflate_init(&z);
                isal_gzip_header_init(&h);
                h.text = text;
                h.time = (uint32_t) tlo | ((uint32_t) thi << 16);
                h.xflags = xfl;
                h.os = os;
                if (has_extra) {
                        h.extra = extra;
                        h.extra_buf_len = nextra;
                        h.extra_len = nextra;
                }
                if (has_name) {
                        h.name = (char *) nm;
                        h.name_buf_len = nname + 1;
                }
                if (has_comment) {
                        h.comment = (char *) cm;
                        h.comment_buf_len = ncomment + 1;
                }
                h.hcrc = hcrc;
                vh_fill(&r, VH_CANARY);
                o = vh_place(&r, ao, VH_END, 0);
                z.next_out = o;
                z.avail_out = ao;
                z.total_out = 1000;
                VH_TRY { ret = isal_write_gzip_header(&z, &h); }
                VH_CATCH { faulted = 1; }
                VH_DONE;
                fprintf(out, "{\"t\":\"wgzip\",\"id\":%d,\"ao\":%d,\"ret\":%d,\"fault\":%d,\"adv\":%ld,\"dao\":%ld,\"dto\":%ld,\"untouched_before\":%d", id, ao, ret, faulted,
                        (long) (z.next_out - o), (long) ao - (long) z.avail_out, (long) z.total_out - 1000, vh_window_intact(&r, o, VH_CANARY));
                {
                        int k, touched = 0;
                        for (k = 0; k < ao; k++)
                                if (o[k] != VH_CANARY)
                                        touched = 1; /* (a header byte may equal the canary; only used when nothing should be written) */
                        fprintf(out, ",\"touched\":%d", touched);
                }
                put("bytes", o, ret == 0 && !faulted && z.next_out >= o && z.next_out <= o + ao ? (size_t) (z.next_out - o) : 0);
                fprintf(out, "}\n");
                free(nm);
                free(cm);
        }
        vh_region_put(&r);
        free(extra);
        free(name);
        free(comment);
}

static void
zlib_writer(FILE *in)
{
        int id = vh_rd(in), info = vh_rd(in), level = vh_rd(in), dict_flag = vh_rd(in), lo = vh_rd(in), hi = vh_rd(in), nao = vh_rd(in), i;
        struct vh_region r = vh_region_get(4096);
        for (i = 0; i < nao; i++) {
                int ao = vh_rd(in), ret = 0, faulted = 0, k, touched = 0;
                struct isal_zstream z;
                struct isal_zlib_header h;
                unsigned char *o;
                isal_deflate_init(&z);
                isal_zlib_header_init(&h);
                h.info = info;
                h.level = level;
                h.dict_flag = dict_flag;
                h.dict_id = (uint32_t) lo | ((uint32_t) hi << 16);
                vh_fill(&r, VH_CANARY);
                o = vh_place(&r, ao, VH_END, 0);
                z.next_out = o;
                z.avail_out = ao;
                z.total_out = 1000;
                VH_TRY { ret = isal_write_zlib_header(&z, &h); }
                VH_CATCH { faulted = 1; }
                VH_DONE;
                for (k = 0; k < ao; k++)
                        if (o[k] != VH_CANARY)
                                touched = 1;
                fprintf(out, "{\"t\":\"wzlib\",\"id\":%d,\"ao\":%d,\"ret\":%d,\"fault\":%d,\"adv\":%ld,\"dao\":%ld,\"dto\":%ld,\"untouched_before\":%d,\"touched\":%d", id, ao, ret, faulted,
                        (long) (z.next_out - o), (long) ao - (long) z.avail_out, (long) z.total_out - 1000, vh_window_intact(&r, o, VH_CANARY), touched);
                put("bytes", o, ret == 0 && !faulted && z.next_out >= o && z.next_out <= o + ao ? (size_t) (z.next_out - o) : 0);
                fprintf(out, "}\n");
        }
        vh_region_put(&r);
}

static void
reader(FILE *in)
{
        int id = vh_rd(in), kind = vh_rd(in), nbytes = vh_rd(in), i, nchunks, nb, cb, eb, grow;
        unsigned char *bytes = vh_rd_bytes(in, nbytes);
        int *chunks;
        struct inflate_state *st = malloc(sizeof(*st));
        struct isal_gzip_header gh;
        struct isal_zlib_header zh;
        struct vh_region nr, cr, er, ir;
        size_t fed = 0;
        int ci = 0, calls = 0, ret = 0, faulted = 0, have_chunk = 0;
        nchunks = vh_rd(in);
        chunks = malloc(sizeof(int) * (nchunks + 1));
        for (i = 0; i < nchunks; i++)
                chunks[i] = vh_rd(in);
        nb = vh_rd(in);
        cb = vh_rd(in);
        eb = vh_rd(in);
        grow = vh_rd(in);
        memset(st, 0xA5, sizeof(*st));
        isal_inflate_init(st);
        st->next_in = NULL;
        st->avail_in = 0;
        isal_gzip_header_init(&gh);
        isal_zlib_header_init(&zh);
        /* user buffers end flush against inaccessible pages: a write past name_buf_len etc. faults */
        nr = vh_region_get(70000);
        cr = vh_region_get(70000);
        er = vh_region_get(70000);
        vh_fill(&nr, 0xEE);
        vh_fill(&cr, 0xEE);
        vh_fill(&er, 0xEE);
        /* a size of -1 means "no buffer" (NULL, length 0), which is how isal_inflate itself calls the reader */
        gh.name = nb < 0 ? NULL : (char *) vh_place(&nr, nb, VH_END, 0);
        gh.name_buf_len = nb < 0 ? 0 : nb;
        gh.comment = cb < 0 ? NULL : (char *) vh_place(&cr, cb, VH_END, 0);
        gh.comment_buf_len = cb < 0 ? 0 : cb;
        gh.extra = eb < 0 ? NULL : vh_place(&er, eb, VH_END, 0);
        gh.extra_buf_len = eb < 0 ? 0 : eb;
        fprintf(out, "{\"t\":\"read\",\"id\":%d,\"kind\":%d,\"steps\":[", id, kind);
        for (calls = 0; calls < 100000; calls++) {
                uint32_t ai0;
                int bs0;
                if (st->avail_in == 0 && fed < (size_t) nbytes) {
                        size_t n = ci < nchunks ? (size_t) chunks[ci] : (size_t) nbytes - fed;
                        ci++;
                        if (n > nbytes - fed)
                                n = nbytes - fed;
                        if (have_chunk)
                                vh_region_free(&ir);
                        ir = vh_region_new(n ? n : 1); /* each chunk in its own exact-size mapping */
                        have_chunk = 1;
                        st->next_in = vh_place(&ir, n, VH_END, 0);
                        memcpy(st->next_in, bytes + fed, n);
                        st->avail_in = n;
                        fed += n;
                }
                ai0 = st->avail_in;
                faulted = 0;
                bs0 = st->block_state;
                VH_TRY { ret = kind == 0 ? isal_read_gzip_header(st, &gh) : isal_read_zlib_header(st, &zh); }
                VH_CATCH { faulted = 1; }
                VH_DONE;
                fprintf(out, "%s[%d,%u,%u,%d,\"%s\",\"%s\",%d]", calls ? "," : "", ret, ai0, ai0 - st->avail_in, faulted, hstate_name(bs0),
                        hstate_name(st->block_state), st->wrapper_flag != 0);
                if (faulted || ret < 0 || ret == ISAL_DECOMP_OK)
                        break;
                if (ret == ISAL_END_INPUT) {
                        if (fed == (size_t) nbytes && st->avail_in == 0)
                                break; /* nothing more to give */
                        continue;
                }
                if (!grow)
                        break;
                /* overflow: enlarge the buffer (keeping what was copied so far) and call again */
                if (ret == ISAL_NAME_OVERFLOW) {
                        char *nn = (char *) vh_place(&nr, gh.name_buf_len + grow, VH_END, 0);
                        memmove(nn, gh.name, gh.name_buf_len);
                        gh.name = nn;
                        gh.name_buf_len += grow;
                } else if (ret == ISAL_COMMENT_OVERFLOW) {
                        char *nn = (char *) vh_place(&cr, gh.comment_buf_len + grow, VH_END, 0);
                        memmove(nn, gh.comment, gh.comment_buf_len);
                        gh.comment = nn;
                        gh.comment_buf_len += grow;
                } else if (ret == ISAL_EXTRA_OVERFLOW) {
                        unsigned char *nn = vh_place(&er, gh.extra_buf_len + grow, VH_END, 0);
                        memmove(nn, gh.extra, gh.extra_buf_len);
                        gh.extra = nn;
                        gh.extra_buf_len += grow;
                } else
                        break;
        }
        fprintf(out, "],\"ret\":%d,\"fault\":%d,\"pos\":%zu,\"fed\":%zu", ret, faulted, fed - st->avail_in, fed);
        if (kind == 0) {
                size_t nl = gh.name ? strnlen(gh.name, gh.name_buf_len) : 0, cl = gh.comment ? strnlen(gh.comment, gh.comment_buf_len) : 0;
                fprintf(out, ",\"text\":%u,\"time_lo\":%u,\"time_hi\":%u,\"xflags\":%u,\"os\":%u,\"extra_len\":%u,\"name_terminated\":%d,\"comment_terminated\":%d", gh.text,
                        gh.time & 0xffff, gh.time >> 16, gh.xflags, gh.os, gh.extra_len, nl < gh.name_buf_len, cl < gh.comment_buf_len);
                fprintf(out, ",\"nobuf\":%d", (gh.name == NULL) + 2 * (gh.comment == NULL) + 4 * (gh.extra == NULL));
                put("name", (unsigned char *) (gh.name ? gh.name : ""), nl);
                put("comment", (unsigned char *) (gh.comment ? gh.comment : ""), cl);
                put("extra", gh.extra ? gh.extra : (unsigned char *) "", gh.extra == NULL ? 0 : gh.extra_len <= gh.extra_buf_len ? gh.extra_len : gh.extra_buf_len);
        } else {
                fprintf(out, ",\"info\":%u,\"level\":%u,\"dict_flag\":%u,\"id_lo\":%u,\"id_hi\":%u", zh.info, zh.level, zh.dict_flag, zh.dict_id & 0xffff, zh.dict_id >> 16);
        }
        fprintf(out, "}\n");
        if (have_chunk)
                vh_region_free(&ir);
        vh_region_put(&nr);
        vh_region_put(&cr);
        vh_region_put(&er);
        free(bytes);
        free(chunks);
        free(st);
}

int
main(int argc, char **argv)
{
        FILE *in = fopen(argv[1], "r");
        int t;
        out = fopen(argv[2], "w");
        if (!in || !out)
                return 3;
        vh_init((size_t) 1 << 42);
        while (vh_rd_opt(in, &t)) {
                if (t == 1)
                        gzip_writer(in);
                else if (t == 2)
                        zlib_writer(in);
                else
                        reader(in);
        }
        fclose(out);
        return 0;
}
