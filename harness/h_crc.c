/* C04: replay TLC-generated checksum vectors (Checksums.tla) into every CRC / Adler-32 variant:
 * every len 0..N (expected = spec value of that prefix), placements/alignments, every split point
 * of selected lengths (compose), copy form (dst == src, canaries). */
#include "vh.h"
#include "crc.h"
#include "crc64.h"
#define W __attribute__((weak))
enum { K16, K16COPY, K32, KISCSI, K64 };
typedef uint16_t (*f16)(uint16_t, const unsigned char *, uint64_t);
typedef uint16_t (*f16c)(uint16_t, uint8_t *, uint8_t *, uint64_t);
typedef uint32_t (*f32)(uint32_t, const unsigned char *, uint64_t);
typedef unsigned (*fisc)(unsigned char *, int, unsigned);
typedef uint64_t (*f64)(uint64_t, const uint8_t *, uint64_t);
#define D16(n) extern uint16_t n(uint16_t, const unsigned char *, uint64_t) W;
#define D16C(n) extern uint16_t n(uint16_t, uint8_t *, uint8_t *, uint64_t) W;
#define D32(n) extern uint32_t n(uint32_t, const unsigned char *, uint64_t) W;
#define DISC(n) extern unsigned n(unsigned char *, int, unsigned) W;
#define D64(n) extern uint64_t n(uint64_t, const uint8_t *, uint64_t) W;
D16(crc16_t10dif_01) D16(crc16_t10dif_02) D16(crc16_t10dif_by4) D16(crc16_t10dif_by16_10)
D16C(crc16_t10dif_copy_by4) D16C(crc16_t10dif_copy_by4_02)
D32(crc32_ieee_01) D32(crc32_ieee_02) D32(crc32_ieee_by4) D32(crc32_ieee_by16_10)
D32(crc32_gzip_refl_by8) D32(crc32_gzip_refl_by8_02) D32(crc32_gzip_refl_by16_10)
DISC(crc32_iscsi_00) DISC(crc32_iscsi_01) DISC(crc32_iscsi_by16_10)
D32(adler32_base) D32(adler32_sse) D32(adler32_avx2_4) D32(isal_adler32) D32(isal_adler32_bam1)
#define D64V(x) D64(crc64_##x##_by8) D64(crc64_##x##_by16_10)
D64V(ecma_refl) D64V(ecma_norm) D64V(iso_refl) D64V(iso_norm) D64V(jones_refl) D64V(jones_norm) D64V(rocksoft_refl) D64V(rocksoft_norm)

struct var { const char *family; const char *name; int kind; void *f; };
#define V(fam, n, k) { fam, #n, k, (void *) n }
#define V64(x) V("crc64_" #x, crc64_##x, K64), V("crc64_" #x, crc64_##x##_base, K64), V("crc64_" #x, crc64_##x##_by8, K64), V("crc64_" #x, crc64_##x##_by16_10, K64)
static struct var vars[] = {
        V("crc16_t10dif", crc16_t10dif, K16), V("crc16_t10dif", crc16_t10dif_base, K16), V("crc16_t10dif", crc16_t10dif_01, K16),
        V("crc16_t10dif", crc16_t10dif_02, K16), V("crc16_t10dif", crc16_t10dif_by4, K16), V("crc16_t10dif", crc16_t10dif_by16_10, K16),
        V("crc16_t10dif", crc16_t10dif_copy, K16COPY), V("crc16_t10dif", crc16_t10dif_copy_base, K16COPY),
        V("crc16_t10dif", crc16_t10dif_copy_by4, K16COPY), V("crc16_t10dif", crc16_t10dif_copy_by4_02, K16COPY),
        V("crc32_ieee", crc32_ieee, K32), V("crc32_ieee", crc32_ieee_base, K32), V("crc32_ieee", crc32_ieee_01, K32), V("crc32_ieee", crc32_ieee_02, K32),
        V("crc32_ieee", crc32_ieee_by4, K32), V("crc32_ieee", crc32_ieee_by16_10, K32),
        V("crc32_gzip_refl", crc32_gzip_refl, K32), V("crc32_gzip_refl", crc32_gzip_refl_base, K32), V("crc32_gzip_refl", crc32_gzip_refl_by8, K32),
        V("crc32_gzip_refl", crc32_gzip_refl_by8_02, K32), V("crc32_gzip_refl", crc32_gzip_refl_by16_10, K32),
        V("crc32_iscsi", crc32_iscsi, KISCSI), V("crc32_iscsi", crc32_iscsi_base, KISCSI), V("crc32_iscsi", crc32_iscsi_00, KISCSI),
        V("crc32_iscsi", crc32_iscsi_01, KISCSI), V("crc32_iscsi", crc32_iscsi_by16_10, KISCSI),
        V64(ecma_refl), V64(ecma_norm), V64(iso_refl), V64(iso_norm), V64(jones_refl), V64(jones_norm), V64(rocksoft_refl), V64(rocksoft_norm),
        V("adler32", isal_adler32, K32), V("adler32", adler32_base, K32), V("adler32", adler32_sse, K32), V("adler32", adler32_avx2_4, K32),
        V("adler32_bam1", isal_adler32_bam1, K32),
};
#define NVARS (sizeof(vars) / sizeof(vars[0]))

static struct vh_region rsrc, rdst;
static FILE *out;
static long calls, mism, splits, huge_calls;
static long per_var[NVARS];
static int vec_id;

static uint64_t
call(struct var *v, uint64_t seed, unsigned char *p, uint64_t len, unsigned char *dst, int *faulted)
{
        volatile uint64_t r = 0;
        *faulted = 0;
        VH_TRY {
                switch (v->kind) {
                case K16: r = ((f16) v->f)((uint16_t) seed, p, len); break;
                case K16COPY: r = ((f16c) v->f)((uint16_t) seed, dst, p, len); break;
                case K32: r = ((f32) v->f)((uint32_t) seed, p, len); break;
                case KISCSI: r = ((fisc) v->f)(p, (int) len, (unsigned) seed); break;
                default: r = ((f64) v->f)(seed, p, len);
                }
        }
        VH_CATCH { *faulted = 1; }
        VH_DONE;
        calls++;
        return r;
}
static void
report(const char *what, struct var *v, int len, int pl, int off, int extra)
{
        mism++;
        if (mism <= 40)
                fprintf(out, "{\"e\":\"mismatch\",\"what\":\"%s\",\"fn\":\"%s\",\"vec\":%d,\"len\":%d,\"placement\":%d,\"off\":%d,\"extra\":%d}\n", what, v->name,
                        vec_id, len, pl, off, extra);
}

static void
point(struct var *v, uint64_t seed, unsigned char *msg, uint64_t *exp, int len, int pl, int off)
{
        unsigned char *p, *d = NULL;
        int faulted;
        uint64_t r;
        vh_fill(&rsrc, VH_CANARY);
        p = vh_place(&rsrc, len, pl, off);
        memcpy(p, msg, len);
        if (v->kind == K16COPY) {
                vh_fill(&rdst, VH_CANARY);
                d = vh_place(&rdst, len, pl, (off * 7 + 3) % 64 * (pl == VH_MID));
        }
        r = call(v, seed, p, len, d, &faulted);
        if (faulted) {
                report("fault", v, len, pl, off, 0);
                return;
        }
        if (r != exp[len])
                report("wrong-checksum", v, len, pl, off, 0);
        if (memcmp(p, msg, len) || vh_outside_intact(&rsrc, p, len, VH_CANARY) != 0x7fffffff)
                report("source-modified", v, len, pl, off, 0);
        if (d) {
                if (memcmp(d, msg, len))
                        report("copy-differs-from-source", v, len, pl, off, 0);
                if (vh_outside_intact(&rdst, d, len, VH_CANARY) != 0x7fffffff)
                        report("write-outside-destination", v, len, pl, off, 0);
        }
}

static int
near_pow2(int l)
{
        int k;
        for (k = 10; k < 24; k++)
                if (l >= (1 << k) - 40 && l <= (1 << k) + 70)
                        return 1;
        return 0;
}

int
main(int argc, char **argv)
{
        FILE *in = fopen(argv[1], "r");
        int nvec, vi, i, len, lenstep = atoi(argv[3]);
        unsigned v;
        out = fopen(argv[2], "w");
        if (!in || !out)
                return 3;
        vh_init((size_t) 1 << 38);
        nvec = vh_rd(in);
        for (vi = 0; vi < nvec; vi++) {
                char fam[64];
                int nl, N, final_only, nexp;
                uint64_t seed = 0, *exp;
                unsigned char *msg;
                vec_id = vh_rd(in);
                if (fscanf(in, "%63s", fam) != 1)
                        return 3;
                nl = vh_rd(in);
                for (i = 0; i < nl; i++)
                        seed |= (uint64_t) vh_rd(in) << (16 * i);
                final_only = vh_rd(in);
                N = vh_rd(in);
                msg = vh_rd_bytes(in, N);
                nexp = final_only ? 1 : N + 1;
                exp = calloc(N + 1, sizeof(uint64_t));
                for (len = 0; len < nexp; len++) {
                        uint64_t x = 0;
                        for (i = 0; i < nl; i++)
                                x |= (uint64_t) vh_rd(in) << (16 * i);
                        exp[final_only ? N : len] = x;
                }
                rsrc = vh_region_new(N + 512);
                rdst = vh_region_new(N + 512);
                for (v = 0; v < NVARS; v++) {
                        struct var *va = &vars[v];
                        if (strcmp(va->family, fam) || !va->f)
                                continue;
                        per_var[v]++;
                        if (final_only) {
                                point(va, seed, msg, exp, N, VH_END, 0);
                                point(va, seed, msg, exp, N, VH_MID, 7);
                                continue;
                        }
                        /* dense: small lengths, the end, and the neighbourhoods of the kernels' block structure (Adler-32 reduces every
                         * 5552 bytes; the 3-way crc32_iscsi kernels work in blocks of 768 / 1536 / 3072 bytes; folding kernels change path at powers of two) */
#define DENSE(l) ((l) < 600 || (l) > N - 70 || (l) % 5552 < 72 || (l) % 5552 > 5552 - 40 || (l) % 768 < 48 || (l) % 768 > 768 - 16)
                        for (len = 0; len <= N; len += (DENSE(len) || near_pow2(len)) ? 1 : lenstep) {
                                point(va, seed, msg, exp, len, VH_END, 0);
                                point(va, seed, msg, exp, len, VH_START, 0);
                                point(va, seed, msg, exp, len, VH_MID, (len * 13 + 5) % 64);
                                if (len == N || len == N - 1 || len == 255 || len == 64 || len == 17)
                                        for (i = 0; i < 64; i++)
                                                point(va, seed, msg, exp, len, VH_MID, i);
                        }
                        /* compose: every split point of selected total lengths */
                        {
                                int Ls[] = { N, N - 1, 300, 257, 100, 33 }, li, s, f1, f2;
                                for (li = 0; li < 6; li++) {
                                        int L = Ls[li];
                                        unsigned char *p, *d1 = NULL, *d2 = NULL;
                                        if (L > N || L < 0)
                                                continue;
                                        vh_fill(&rsrc, VH_CANARY);
                                        p = vh_place(&rsrc, L, VH_END, 0);
                                        memcpy(p, msg, L);
                                        for (s = 0; s <= L; s++) {
                                                uint64_t r1, r2;
                                                if (va->kind == K16COPY) {
                                                        d1 = vh_place(&rdst, L, VH_END, 0);
                                                        d2 = d1 + s;
                                                }
                                                r1 = call(va, seed, p, s, d1, &f1);
                                                r2 = f1 ? 0 : call(va, r1, p + s, L - s, d2, &f2);
                                                splits++;
                                                if (f1 || f2)
                                                        report("fault", va, L, VH_END, s, 1);
                                                else if (r1 != exp[s])
                                                        report("wrong-checksum", va, s, VH_END, 0, 2);
                                                else if (r2 != exp[L])
                                                        report("does-not-compose", va, L, VH_END, s, 3);
                                        }
                                }
                        }
                }
                vh_region_free(&rsrc);
                vh_region_free(&rdst);
                free(msg);
                free(exp);
        }
        /* messages longer than 2^32 bytes: head bytes, then a run of zero bytes (a sparse mapping, backed by the kernel's zero page),
         * then tail bytes; expected values from Checksums!CrcWithZeros (multiplication by x^(8n) mod P).  argv[4] = vector file,
         * argv[5] = 1: dispatched entry points only */
        if (argc > 4) {
                FILE *hin = fopen(argv[4], "r");
                int only_dispatched = argc > 5 && atoi(argv[5]);
                int nh = hin ? vh_rd(hin) : 0, hi_;
                for (hi_ = 0; hi_ < nh; hi_++) {
                        char fam[64];
                        int nl, la, lb, v, f1, f2;
                        uint64_t seed = 0, e1 = 0, e2 = 0, nz, total;
                        unsigned char *A, *B, *p;
                        struct vh_region hr;
                        vec_id = vh_rd(hin);
                        if (fscanf(hin, "%63s", fam) != 1)
                                return 3;
                        nl = vh_rd(hin);
                        for (i = 0; i < nl; i++)
                                seed |= (uint64_t) vh_rd(hin) << (16 * i);
                        la = vh_rd(hin);
                        A = vh_rd_bytes(hin, la);
                        nz = (uint64_t) vh_rd(hin) << 32; /* zero-run length: high and low 32-bit halves (each < 2^31) */
                        nz += (uint64_t) vh_rd(hin);
                        lb = vh_rd(hin);
                        B = vh_rd_bytes(hin, lb);
                        for (i = 0; i < nl; i++)
                                e1 |= (uint64_t) vh_rd(hin) << (16 * i);
                        for (i = 0; i < nl; i++)
                                e2 |= (uint64_t) vh_rd(hin) << (16 * i);
                        total = la + nz + lb;
                        hr = vh_region_new(total + 4096);
                        p = hr.hi - total; /* end flush against the inaccessible page */
                        memcpy(p, A, la);
                        memcpy(p + la + nz, B, lb);
                        for (v = 0; v < (int) NVARS; v++) {
                                struct var *va = &vars[v];
                                uint64_t r, r1, r2;
                                if (strcmp(va->family, fam) || !va->f || va->kind == K16COPY || va->kind == KISCSI)
                                        continue;
                                if (only_dispatched && strcmp(va->name, fam) && strcmp(va->name, "isal_adler32") && strcmp(va->name, "isal_adler32_bam1"))
                                        continue;
                                huge_calls++;
                                r = call(va, seed, p, total, NULL, &f1);
                                if (f1)
                                        report("huge-fault", va, -1, VH_END, 0, 0);
                                else if (r != e2)
                                        report("huge-wrong-checksum", va, -1, VH_END, 0, 0);
                                r1 = call(va, seed, p, la, NULL, &f1);
                                r2 = f1 ? 0 : call(va, r1, p + la, nz + lb, NULL, &f2);
                                if (f1 || f2)
                                        report("huge-fault", va, -1, VH_END, la, 1);
                                else if (r1 != e1 || r2 != e2)
                                        report("huge-does-not-compose", va, -1, VH_END, la, 1);
                        }
                        vh_region_free(&hr);
                        free(A);
                        free(B);
                }
                if (hin)
                        fclose(hin);
        }
        fprintf(out, "{\"e\":\"hugesummary\",\"calls\":%ld}\n", huge_calls);
        fprintf(out, "{\"e\":\"summary\",\"calls\":%ld,\"mismatches\":%ld,\"faults\":%ld,\"splits\":%ld,\"variants\":{", calls, mism, vh_faults, splits);
        for (v = 0; v < NVARS; v++)
                fprintf(out, "%s\"%s\":%ld", v ? "," : "", vars[v].name, vars[v].f ? per_var[v] : -1);
        fprintf(out, "}}\n");
        fclose(out);
        return 0;
}
