/* C16: run the repository's REAL resolvers (re-assembled from the working tree with cpuid/xgetbv
 * intercepted) for every CPU configuration TLC enumerated, and record which implementation each of
 * them stores into its dispatch slot.  No kernel is executed here. */
#include <stdio.h>
#include <stdlib.h>
#include <stdint.h>
#include <string.h>

struct cfg { uint32_t c1eax, c1ecx, c7ebx, c7ecx, xcr0; };
static struct cfg cur;
static int n_xgetbv, n_cpuid, bad_leaf;

void
verif_cpuid_c(uint32_t leaf, uint32_t sub, uint32_t *out)
{
        n_cpuid++;
        out[0] = out[1] = out[2] = out[3] = 0;
        if (leaf == 1) {
                out[0] = cur.c1eax;
                out[2] = cur.c1ecx;
                out[3] = (1u << 26) | (1u << 25); /* SSE2, SSE: x86-64 baseline */
        } else if (leaf == 7 && sub == 0) {
                out[1] = cur.c7ebx;
                out[2] = cur.c7ecx;
        } else if (leaf == 0) {
                out[0] = 7;
        } else
                bad_leaf++;
}
void
verif_xgetbv_c(uint32_t idx, uint32_t *out)
{
        n_xgetbv++;
        out[0] = idx == 0 ? cur.xcr0 : 0;
        out[1] = 0;
}

#define ENTRY(n)                                                                                   \
        extern void n##_dispatch_init(void);                                                       \
        extern void *n##_dispatched;
#include "disp_entries.inc"
#undef ENTRY
struct ent { const char *name; void (*init)(void); void **slot; };
#define ENTRY(n) { #n, n##_dispatch_init, &n##_dispatched },
static struct ent ents[] = {
#include "disp_entries.inc"
};
#undef ENTRY
#define NENT (sizeof(ents) / sizeof(ents[0]))

int
main(int argc, char **argv)
{
        FILE *in = fopen(argv[1], "r"), *out = fopen(argv[2], "w");
        int n, i;
        unsigned e;
        struct cfg *cfgs;
        if (!in || !out || fscanf(in, "%d", &n) != 1)
                return 3;
        cfgs = calloc(n, sizeof(*cfgs));
        for (i = 0; i < n; i++) {
                unsigned lo, hi;
                if (fscanf(in, "%u %u %u %u %u %u", &cfgs[i].c1eax, &cfgs[i].c1ecx, &lo, &hi, &cfgs[i].c7ecx, &cfgs[i].xcr0) != 6)
                        return 3;
                cfgs[i].c7ebx = lo | (hi << 16);
        }
        for (e = 0; e < NENT; e++) {
                fprintf(out, "{\"entry\":\"%s\",\"slot_addr\":%lu,\"sel\":[", ents[e].name, (unsigned long) ents[e].slot);
                for (i = 0; i < n; i++) {
                        cur = cfgs[i];
                        n_xgetbv = 0;
                        *ents[e].slot = NULL;
                        ents[e].init();
                        fprintf(out, i ? ",%lu" : "%lu", (unsigned long) *ents[e].slot);
                        cfgs[i].c1eax |= 0; /* keep */
                        if (n_xgetbv)
                                ((unsigned char *) cfgs)[0] |= 0; /* no-op */
                        /* xgetbv usage is appended in a second array below */
                }
                fprintf(out, "],\"xgetbv\":[");
                for (i = 0; i < n; i++) {
                        cur = cfgs[i];
                        n_xgetbv = 0;
                        ents[e].init();
                        fprintf(out, i ? ",%d" : "%d", n_xgetbv);
                }
                fprintf(out, "]}\n");
        }
        fprintf(out, "{\"summary\":1,\"entries\":%u,\"configs\":%d,\"bad_leaf\":%d}\n", (unsigned) NENT, n, bad_leaf);
        fclose(out);
        return 0;
}
