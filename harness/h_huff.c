/* C18: build Huffman tables from driver-chosen histograms (or histograms collected from data by each
 * collector variant) with both builders and dump the resulting isal_hufftables for TLC to judge.
 * Input (ints): records   id builder(0 default,1 subset) source(0 explicit, 1..4 collected by dispatched/_base/_01/_04)
 *                         explicit: 316 x (lo24 mid24 hi16)   |   collected: n bytes...                        */
#include "vh.h"
#include "igzip_lib.h"
#define W __attribute__((weak))
extern void isal_update_histogram_base(uint8_t *, int, struct isal_huff_histogram *) W;
extern void isal_update_histogram_01(uint8_t *, int, struct isal_huff_histogram *) W;
extern void isal_update_histogram_04(uint8_t *, int, struct isal_huff_histogram *) W;
int
main(int argc, char **argv)
{
        FILE *in = fopen(argv[1], "r"), *out = fopen(argv[2], "w");
        int id;
        if (!in || !out)
                return 3;
        vh_init((size_t) 1 << 32);
        while (vh_rd_opt(in, &id)) {
                int builder = vh_rd(in), source = vh_rd(in), i, ret = -99, faulted = 0;
                struct isal_huff_histogram *h = calloc(1, sizeof(*h));
                struct vh_region r = vh_region_get(sizeof(struct isal_hufftables) + 64);
                struct isal_hufftables *t = (struct isal_hufftables *) vh_place(&r, sizeof(*t), VH_END, 0);
                memset(t, 0xC3, sizeof(*t));
                if (source == 0) {
                        for (i = 0; i < ISAL_DEF_LIT_LEN_SYMBOLS + ISAL_DEF_DIST_SYMBOLS; i++) {
                                uint64_t v = (uint64_t) vh_rd(in);
                                v |= (uint64_t) vh_rd(in) << 24;
                                v |= (uint64_t) vh_rd(in) << 48;
                                if (i < ISAL_DEF_LIT_LEN_SYMBOLS)
                                        h->lit_len_histogram[i] = v;
                                else
                                        h->dist_histogram[i - ISAL_DEF_LIT_LEN_SYMBOLS] = v;
                        }
                } else {
                        int n = vh_rd(in);
                        unsigned char *d = vh_rd_bytes(in, n);
                        if (source == 1)
                                isal_update_histogram(d, n, h);
                        else if (source == 2 && isal_update_histogram_base)
                                isal_update_histogram_base(d, n, h);
                        else if (source == 3 && isal_update_histogram_01)
                                isal_update_histogram_01(d, n, h);
                        else if (source == 4 && isal_update_histogram_04)
                                isal_update_histogram_04(d, n, h);
                        free(d);
                }
                VH_TRY { ret = builder ? isal_create_hufftables_subset(t, h) : isal_create_hufftables(t, h); }
                VH_CATCH { faulted = 1; }
                VH_DONE;
                fprintf(out, "{\"id\":%d,\"ret\":%d,\"fault\":%d,\"hdr_bits\":%u", id, ret, faulted, faulted ? 0 : t->deflate_hdr_count * 8 + t->deflate_hdr_extra_bits);
                if (!faulted) {
                        unsigned n = t->deflate_hdr_count + (t->deflate_hdr_extra_bits ? 1 : 0);
                        if (n > ISAL_DEF_MAX_HDR_SIZE)
                                n = ISAL_DEF_MAX_HDR_SIZE;
                        fprintf(out, ",\"hdr\":");
                        vh_put_bytes(out, t->deflate_hdr, n);
                        fprintf(out, ",\"lit_sizes\":");
                        vh_put_bytes(out, t->lit_table_sizes, IGZIP_LIT_TABLE_SIZE);
                        fprintf(out, ",\"lit_codes\":[");
                        for (i = 0; i < IGZIP_LIT_TABLE_SIZE; i++)
                                fprintf(out, i ? ",%u" : "%u", t->lit_table[i]);
                        fprintf(out, "],\"len_table\":[");
                        for (i = 0; i < IGZIP_LEN_TABLE_SIZE; i++)
                                fprintf(out, i ? ",%u" : "%u", t->len_table[i]);
                        fprintf(out, "],\"dcodes\":[");
                        for (i = 0; i < 30 - IGZIP_DECODE_OFFSET; i++)
                                fprintf(out, i ? ",%u" : "%u", t->dcodes[i]);
                        fprintf(out, "],\"dcodes_sizes\":");
                        vh_put_bytes(out, t->dcodes_sizes, 30 - IGZIP_DECODE_OFFSET);
                        fprintf(out, ",\"dist_table\":[");
                        for (i = 0; i < (IGZIP_DIST_TABLE_SIZE <= 2 ? IGZIP_DIST_TABLE_SIZE : 2); i++)
                                fprintf(out, i ? ",%u" : "%u", t->dist_table[i]);
                        fprintf(out, "]");
                }
                fprintf(out, "}\n");
                vh_region_put(&r);
                free(h);
        }
        fclose(out);
        return 0;
}
