/* C15: (mt)   after a warm-up that executes the whole workload once, the library's own writable pages are made
 *             read-only and the workload runs on many threads with independent contexts: any write into library
 *             data is reported (a store into a dispatch slot is reported separately);
 *      (cold) threads released by a barrier make the FIRST call to every entry point concurrently;
 *      (reuse) compress A / reset / compress B versus a fresh context compressing B (and the same for inflate,
 *             and for init on a dirty context): the observable outputs are dumped for TLC to compare.
 * Results of threads are compared with the results the main thread computes serially for the same arguments. */
#define _GNU_SOURCE
#include <stdio.h>
#include <stdlib.h>
#include <string.h>
#include <stdint.h>
#include <signal.h>
#include <pthread.h>
#include <link.h>
#include <unistd.h>
#include <sys/mman.h>
#include <ucontext.h>
#include "igzip_lib.h"
#include "crc.h"
#include "crc64.h"
#include "erasure_code.h"
#include "raid.h"
#include "mem_routines.h"

#define NDATA 6000
struct result {
        uint64_t crc[16];
        unsigned char parity[4][256];
        unsigned char pq[2][256];
        int zero;
        unsigned char comp[4][NDATA + 600];
        uint32_t comp_len[4];
        unsigned char decomp_ok[4];
        uint32_t adler;
};

static unsigned char data[NDATA];

static void
workload(struct result *r, int seedoff)
{
        unsigned char *src[6], *par[4], ecm[10 * 6], tbls[6 * 4 * 32];
        static __thread unsigned char bufs[10][256];
        void *arr[8];
        int i, j, level;
        memset(r, 0, sizeof(*r));
        unsigned char *d = data + seedoff;
        int n = 4000;
        r->crc[0] = crc16_t10dif(0, d, n);
        r->crc[1] = crc32_ieee(0, d, n);
        r->crc[2] = crc32_gzip_refl(0, d, n);
        r->crc[3] = crc32_iscsi(d, n, 0);
        r->crc[4] = crc64_ecma_refl(0, d, n);
        r->crc[5] = crc64_ecma_norm(0, d, n);
        r->crc[6] = crc64_iso_refl(0, d, n);
        r->crc[7] = crc64_iso_norm(0, d, n);
        r->crc[8] = crc64_jones_refl(0, d, n);
        r->crc[9] = crc64_jones_norm(0, d, n);
        r->crc[10] = crc64_rocksoft_refl(0, d, n);
        r->crc[11] = crc64_rocksoft_norm(0, d, n);
        r->crc[12] = crc16_t10dif_copy(0, bufs[9], d, 256);
        r->adler = isal_adler32(1, d, n);
        for (i = 0; i < 6; i++) {
                src[i] = bufs[i];
                memcpy(bufs[i], d + 256 * i, 256);
        }
        for (i = 0; i < 4; i++)
                par[i] = r->parity[i];
        gf_gen_cauchy1_matrix(ecm, 10, 6);
        ec_init_tables(6, 4, &ecm[36], tbls);
        ec_encode_data(256, 6, 4, tbls, src, par);
        for (i = 0; i < 6; i++)
                arr[i] = bufs[i];
        {
                static __thread unsigned char p[256] __attribute__((aligned(32))), q[256] __attribute__((aligned(32)));
                static __thread unsigned char s[6][256] __attribute__((aligned(32)));
                for (i = 0; i < 6; i++) {
                        memcpy(s[i], bufs[i], 256);
                        arr[i] = s[i];
                }
                arr[6] = p;
                arr[7] = q;
                pq_gen(8, 256, arr);
                memcpy(r->pq[0], p, 256);
                memcpy(r->pq[1], q, 256);
                arr[6] = p;
                xor_gen(7, 256, arr);
                for (j = 0; j < 256; j++)
                        r->pq[0][j] ^= p[j] ^ p[j]; /* keep P from pq_gen; xor_gen exercised */
        }
        r->zero = isal_zero_detect(d, 100);
        for (level = 0; level < 4; level++) {
                struct isal_zstream *z = malloc(sizeof(*z));
                struct inflate_state *st = malloc(sizeof(*st));
                unsigned char *lb = malloc(ISAL_DEF_LVL3_DEFAULT), *back = malloc(NDATA);
                isal_deflate_init(z);
                z->level = level;
                z->level_buf = lb;
                z->level_buf_size = ISAL_DEF_LVL3_DEFAULT;
                z->gzip_flag = level % 2 ? IGZIP_GZIP : IGZIP_ZLIB;
                z->next_in = d;
                z->avail_in = n;
                z->end_of_stream = 1;
                z->next_out = r->comp[level];
                z->avail_out = sizeof(r->comp[level]);
                isal_deflate(z);
                r->comp_len[level] = z->total_out;
                isal_inflate_init(st);
                st->crc_flag = level % 2 ? ISAL_GZIP : ISAL_ZLIB;
                st->next_in = r->comp[level];
                st->avail_in = r->comp_len[level];
                st->next_out = back;
                st->avail_out = NDATA;
                r->decomp_ok[level] = isal_inflate(st) == 0 && st->total_out == (uint32_t) n && memcmp(back, d, n) == 0 && st->block_state == ISAL_BLOCK_FINISH;
                free(z);
                free(st);
                free(lb);
                free(back);
        }
}

/* ---------- library writable segments ---------- */
static struct { uintptr_t lo, hi; } segs[16];
static int nsegs;
static volatile long lib_writes, other_faults;
static uintptr_t write_addrs[64];
static int
phdr_cb(struct dl_phdr_info *info, size_t sz, void *p)
{
        int i;
        (void) sz;
        (void) p;
        if (!info->dlpi_name || !strstr(info->dlpi_name, "isal"))
                return 0;
        for (i = 0; i < info->dlpi_phnum; i++) {
                const ElfW(Phdr) *ph = &info->dlpi_phdr[i];
                if (ph->p_type == PT_LOAD && (ph->p_flags & PF_W) && nsegs < 16) {
                        uintptr_t lo = (info->dlpi_addr + ph->p_vaddr) & ~(uintptr_t) 4095;
                        uintptr_t hi = (info->dlpi_addr + ph->p_vaddr + ph->p_memsz + 4095) & ~(uintptr_t) 4095;
                        segs[nsegs].lo = lo;
                        segs[nsegs].hi = hi;
                        nsegs++;
                }
        }
        return 0;
}
static void
on_segv(int sig, siginfo_t *si, void *uc)
{
        uintptr_t a = (uintptr_t) si->si_addr;
        int i;
        (void) sig;
        (void) uc;
        for (i = 0; i < nsegs; i++)
                if (a >= segs[i].lo && a < segs[i].hi) {
                        long k = __sync_fetch_and_add(&lib_writes, 1);
                        if (k < 64)
                                write_addrs[k] = a - segs[0].lo;
                        /* let the store proceed so that the run can continue and report everything */
                        mprotect((void *) (a & ~(uintptr_t) 4095), 4096, PROT_READ | PROT_WRITE);
                        return;
                }
        other_faults++;
        _exit(4);
}

static pthread_barrier_t bar;
static struct result serial[8];
static volatile long mismatches;
static void *
thread_fn(void *arg)
{
        long id = (long) arg;
        struct result *r = malloc(sizeof(*r));
        int rep;
        pthread_barrier_wait(&bar);
        for (rep = 0; rep < 6; rep++) {
                int k = (id + rep) % 8;
                workload(r, k * 37);
                if (memcmp(r, &serial[k], sizeof(*r)) != 0)
                        __sync_fetch_and_add(&mismatches, 1);
        }
        free(r);
        return NULL;
}

struct cold { long id; struct result *r; };
static void *
cold_fn(void *a)
{
        struct cold *c = a;
        pthread_barrier_wait(&bar);
        workload(c->r, (int) (c->id % 8) * 37);
        return NULL;
}

static int
run_threads(int nthreads)
{
        pthread_t th[64];
        long i;
        pthread_barrier_init(&bar, NULL, nthreads);
        for (i = 0; i < nthreads; i++)
                pthread_create(&th[i], NULL, thread_fn, (void *) i);
        for (i = 0; i < nthreads; i++)
                pthread_join(th[i], NULL);
        return 0;
}

/* ---------- reuse ---------- */
static void
dump(FILE *o, const char *name, const unsigned char *b, size_t n, int ret)
{
        size_t i;
        fprintf(o, "{\"name\":\"%s\",\"ret\":%d,\"bytes\":[", name, ret);
        for (i = 0; i < n; i++)
                fprintf(o, i ? ",%u" : "%u", b[i]);
        fprintf(o, "]}\n");
}
static size_t
stream_compress(struct isal_zstream *z, unsigned char *in, size_t n, unsigned char *out, size_t cap, int chunk, int flush)
{
        size_t fed = 0;
        z->next_out = out;
        z->avail_out = cap;
        do {
                if (z->avail_in == 0 && fed < n) {
                        size_t c = n - fed < (size_t) chunk ? n - fed : (size_t) chunk;
                        z->next_in = in + fed;
                        z->avail_in = c;
                        fed += c;
                }
                z->end_of_stream = fed == n;
                z->flush = z->end_of_stream ? 0 : flush;
                if (isal_deflate(z) != COMP_OK)
                        break;
        } while (z->internal_state.state != ZSTATE_END && z->avail_out > 0);
        return cap - z->avail_out;
}
static void
reuse(FILE *o)
{
        static unsigned char A[5000], B[3000], out[20000], lb[ISAL_DEF_LVL3_DEFAULT], back[6000];
        int level, i, dirty;
        for (i = 0; i < 5000; i++)
                A[i] = (unsigned char) ((i * 7) ^ (i >> 5));
        for (i = 0; i < 3000; i++)
                B[i] = "the quick brown fox "[i % 20] ^ (unsigned char) (i >> 8);
        for (level = 0; level < 4; level++)
                for (dirty = 0; dirty < 4; dirty++) {
                        struct isal_zstream *z = malloc(sizeof(*z));
                        char name[64];
                        size_t n;
                        /* dirty 0: fresh zeroed context; 1: garbage-filled then init; 2: compress A, then reset; 3: compress A half-way (abandoned), then init */
                        memset(z, dirty == 1 ? 0xD7 : 0, sizeof(*z));
                        memset(lb, dirty == 1 ? 0x3C : 0, sizeof(lb));
                        memset(out, dirty == 1 ? 0x99 : 0, sizeof(out));
                        isal_deflate_init(z);
                        z->avail_in = 0;
                        z->level = level;
                        z->level_buf = lb;
                        z->level_buf_size = sizeof(lb);
                        z->gzip_flag = IGZIP_GZIP;
                        if (dirty == 2) {
                                stream_compress(z, A, 5000, out, sizeof(out), 700, SYNC_FLUSH);
                                isal_deflate_reset(z);
                                z->avail_in = 0;
                        } else if (dirty == 3) {
                                z->next_in = A;
                                z->avail_in = 2500;
                                z->next_out = out;
                                z->avail_out = 100;
                                isal_deflate(z);
                                isal_deflate_init(z);
                                z->avail_in = 0;
                                z->level = level;
                                z->level_buf = lb;
                                z->level_buf_size = sizeof(lb);
                                z->gzip_flag = IGZIP_GZIP;
                        }
                        n = stream_compress(z, B, 3000, out, sizeof(out), 333, level % 2 ? FULL_FLUSH : NO_FLUSH);
                        sprintf(name, "deflate-level%d-history%d", level, dirty);
                        dump(o, name, out, n, z->internal_state.state == ZSTATE_END ? 0 : -1);
                        if (dirty == 0 || dirty == 2) { /* inflate: fresh vs (inflate something else, reset) */
                                struct inflate_state *st = malloc(sizeof(*st));
                                int ret;
                                memset(st, dirty ? 0xEE : 0, sizeof(*st));
                                isal_inflate_init(st);
                                st->crc_flag = ISAL_GZIP;
                                if (dirty) {
                                        st->next_in = out;
                                        st->avail_in = n / 2;
                                        st->next_out = back;
                                        st->avail_out = 100;
                                        isal_inflate(st);
                                        isal_inflate_reset(st);
                                        st->crc_flag = ISAL_GZIP;
                                }
                                st->next_in = out;
                                st->avail_in = n;
                                st->next_out = back;
                                st->avail_out = sizeof(back);
                                ret = isal_inflate(st);
                                sprintf(name, "inflate-level%d-history%d", level, dirty);
                                dump(o, name, back, st->total_out, ret * 100 + (int) st->block_state);
                                free(st);
                        }
                        free(z);
                }
}

int
main(int argc, char **argv)
{
        int i;
        struct sigaction sa;
        for (i = 0; i < NDATA; i++)
                data[i] = (unsigned char) ((i * 2654435761u) >> 13) ^ (unsigned char) "isa-l verification "[i % 19];
        if (argc < 2)
                return 3;
        if (!strcmp(argv[1], "mt")) {
                int nthreads = atoi(argv[2]);
                for (i = 0; i < 8; i++)
                        workload(&serial[i], i * 37); /* warm-up: every entry point used is resolved, results recorded */
                dl_iterate_phdr(phdr_cb, NULL);
                memset(&sa, 0, sizeof(sa));
                sa.sa_sigaction = on_segv;
                sa.sa_flags = SA_SIGINFO;
                sigaction(SIGSEGV, &sa, NULL);
                for (i = 0; i < nsegs; i++)
                        mprotect((void *) segs[i].lo, segs[i].hi - segs[i].lo, PROT_READ);
                run_threads(nthreads);
                printf("{\"mode\":\"mt\",\"threads\":%d,\"segments\":%d,\"seg_bytes\":%lu,\"lib_writes\":%ld,\"mismatches\":%ld,\"first_offsets\":[", nthreads, nsegs,
                       nsegs ? (unsigned long) (segs[nsegs - 1].hi - segs[0].lo) : 0, lib_writes, mismatches);
                for (i = 0; i < lib_writes && i < 64; i++)
                        printf(i ? ",%lu" : "%lu", (unsigned long) write_addrs[i]);
                printf("]}\n");
                return 0;
        }
        if (!strcmp(argv[1], "cold")) {
                int nthreads = atoi(argv[2]);
                /* nothing has been called yet: every first call happens inside the threads, released together */
                struct result *tmp = malloc(sizeof(*tmp) * 8);
                pthread_t th[64];
                long k;
                pthread_barrier_init(&bar, NULL, nthreads);
                /* serial[] is filled AFTER the race, by the main thread */
                memset(serial, 0, sizeof(serial));
                {
                        /* threads compare against serial[] later: record their own results instead */
                        static struct result tr[64];
                        struct cold args[64];
                        for (k = 0; k < nthreads; k++) {
                                args[k].id = k;
                                args[k].r = &tr[k];
                                pthread_create(&th[k], NULL, cold_fn, &args[k]);
                        }
                        for (k = 0; k < nthreads; k++)
                                pthread_join(th[k], NULL);
                        for (i = 0; i < 8; i++)
                                workload(&serial[i], i * 37);
                        for (k = 0; k < nthreads; k++)
                                if (memcmp(&tr[k], &serial[k % 8], sizeof(struct result)))
                                        mismatches++;
                }
                free(tmp);
                printf("{\"mode\":\"cold\",\"threads\":%d,\"mismatches\":%ld}\n", nthreads, mismatches);
                return 0;
        }
        if (!strcmp(argv[1], "reuse")) {
                FILE *o = fopen(argv[2], "w");
                reuse(o);
                fclose(o);
                return 0;
        }
        return 3;
}
