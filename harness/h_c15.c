/* C15: (mt)   after a warm-up that executes the whole workload once, the library's own writable pages are made
 *             read-only and the workload runs on many threads with independent contexts: any write into library
 *             data is reported (a store into a dispatch slot is reported separately);
 *      (cold) threads released by a barrier make the FIRST call to every entry point concurrently;
 *      (reuse) compress A / reset / compress B versus a fresh context compressing B (and the same for inflate,
 *             and for init on a dirty context): the observable outputs are dumped for TLC to compare.
 * Results of threads are compared with the results the main thread computes serially for the same arguments. */
#define _GNU_SOURCE
#include <stdio.h>
#include <stdlib.h>
#include <string.h>
#include <stdint.h>
#include <signal.h>
#include <pthread.h>
#include <link.h>
#include <unistd.h>
#include <sys/mman.h>
#include <ucontext.h>
#include "igzip_lib.h"
#include "crc.h"
#include "crc64.h"
#include "erasure_code.h"
#include "raid.h"
#include "mem_routines.h"

#define NDATA 6000
struct result {
        uint64_t crc[16];
        unsigned char parity[4][256];
        unsigned char pq[2][256];
        int zero;
        unsigned char comp[4][NDATA + 600];
        uint32_t comp_len[4];
        unsigned char decomp_ok[4];
        uint32_t adler;
        uint32_t stream_sig[4][3][2]; /* streaming compressor, several calls with flushes, default / static / custom tables: (length, Adler-32) of the output */
        uint32_t inflate_sig[4];      /* streaming decompressor fed in pieces */
};

static unsigned char data[NDATA];

static void
workload(struct result *r, int seedoff)
{
        unsigned char *src[6], *par[4], ecm[10 * 6], tbls[6 * 4 * 32];
        static __thread unsigned char bufs[10][256];
        void *arr[8];
        int i, j, level;
        memset(r, 0, sizeof(*r));
        unsigned char *d = data + seedoff;
        int n = 4000;
        r->crc[0] = crc16_t10dif(0, d, n);
        r->crc[1] = crc32_ieee(0, d, n);
        r->crc[2] = crc32_gzip_refl(0, d, n);
        r->crc[3] = crc32_iscsi(d, n, 0);
        r->crc[4] = crc64_ecma_refl(0, d, n);
        r->crc[5] = crc64_ecma_norm(0, d, n);
        r->crc[6] = crc64_iso_refl(0, d, n);
        r->crc[7] = crc64_iso_norm(0, d, n);
        r->crc[8] = crc64_jones_refl(0, d, n);
        r->crc[9] = crc64_jones_norm(0, d, n);
        r->crc[10] = crc64_rocksoft_refl(0, d, n);
        r->crc[11] = crc64_rocksoft_norm(0, d, n);
        r->crc[12] = crc16_t10dif_copy(0, bufs[9], d, 256);
        r->adler = isal_adler32(1, d, n);
        for (i = 0; i < 6; i++) {
                src[i] = bufs[i];
                memcpy(bufs[i], d + 256 * i, 256);
        }
        for (i = 0; i < 4; i++)
                par[i] = r->parity[i];
        gf_gen_cauchy1_matrix(ecm, 10, 6);
        ec_init_tables(6, 4, &ecm[36], tbls);
        ec_encode_data(256, 6, 4, tbls, src, par);
        for (i = 0; i < 6; i++)
                arr[i] = bufs[i];
        {
                static __thread unsigned char p[256] __attribute__((aligned(32))), q[256] __attribute__((aligned(32)));
                static __thread unsigned char s[6][256] __attribute__((aligned(32)));
                for (i = 0; i < 6; i++) {
                        memcpy(s[i], bufs[i], 256);
                        arr[i] = s[i];
                }
                arr[6] = p;
                arr[7] = q;
                pq_gen(8, 256, arr);
                memcpy(r->pq[0], p, 256);
                memcpy(r->pq[1], q, 256);
                arr[6] = p;
                xor_gen(7, 256, arr);
                for (j = 0; j < 256; j++)
                        r->pq[0][j] ^= p[j] ^ p[j]; /* keep P from pq_gen; xor_gen exercised */
        }
        r->zero = isal_zero_detect(d, 100);
        for (level = 0; level < 4; level++) {
                struct isal_zstream *z = malloc(sizeof(*z));
                struct inflate_state *st = malloc(sizeof(*st));
                unsigned char *lb = malloc(ISAL_DEF_LVL3_DEFAULT), *back = malloc(NDATA);
                isal_deflate_init(z);
                z->level = level;
                z->level_buf = lb;
                z->level_buf_size = ISAL_DEF_LVL3_DEFAULT;
                z->gzip_flag = level % 2 ? IGZIP_GZIP : IGZIP_ZLIB;
                z->next_in = d;
                z->avail_in = n;
                z->end_of_stream = 1;
                z->next_out = r->comp[level];
                z->avail_out = sizeof(r->comp[level]);
                isal_deflate(z);
                r->comp_len[level] = z->total_out;
                isal_inflate_init(st);
                st->crc_flag = level % 2 ? ISAL_GZIP : ISAL_ZLIB;
                st->next_in = r->comp[level];
                st->avail_in = r->comp_len[level];
                st->next_out = back;
                st->avail_out = NDATA;
                r->decomp_ok[level] = isal_inflate(st) == 0 && st->total_out == (uint32_t) n && memcmp(back, d, n) == 0 && st->block_state == ISAL_BLOCK_FINISH;
                {       /* the same data through several isal_deflate calls (block headers go out while end_of_stream is 0; sync and full flushes;
                         * the library's default and static tables and a custom one), then through isal_inflate in pieces */
                        int tb;
                        static __thread struct isal_hufftables custom;
                        static __thread struct isal_huff_histogram hist;
                        static __thread unsigned char sout[NDATA + 900];
                        for (tb = 0; tb < 3; tb++) {
                                uint32_t fed = 0;
                                int call = 0;
                                isal_deflate_init(z);
                                z->level = level;
                                z->level_buf = lb;
                                z->level_buf_size = ISAL_DEF_LVL3_DEFAULT;
                                z->gzip_flag = IGZIP_GZIP;
                                if (tb == 1)
                                        isal_deflate_set_hufftables(z, NULL, IGZIP_HUFFTABLE_STATIC);
                                else if (tb == 2) {
                                        memset(&hist, 0, sizeof(hist));
                                        isal_update_histogram(d, 2000, &hist);
                                        isal_create_hufftables(&custom, &hist);
                                        isal_deflate_set_hufftables(z, &custom, IGZIP_HUFFTABLE_CUSTOM);
                                }
                                z->next_out = sout;
                                z->avail_out = sizeof(sout);
                                while (z->internal_state.state != ZSTATE_END && call < 64) {
                                        if (z->avail_in == 0 && fed < (uint32_t) n) {
                                                uint32_t c = (uint32_t) n - fed < 700 ? (uint32_t) n - fed : 700;
                                                z->next_in = d + fed;
                                                z->avail_in = c;
                                                fed += c;
                                        }
                                        z->end_of_stream = fed == (uint32_t) n;
                                        z->flush = z->end_of_stream ? NO_FLUSH : (call % 3 == 0 ? SYNC_FLUSH : call % 3 == 1 ? NO_FLUSH : FULL_FLUSH);
                                        if (isal_deflate(z) != COMP_OK)
                                                break;
                                        call++;
                                }
                                r->stream_sig[level][tb][0] = z->total_out;
                                r->stream_sig[level][tb][1] = isal_adler32(1, sout, z->total_out);
                        }
                        {
                                uint32_t fed = 0, total = r->comp_len[level];
                                int ret = 0;
                                isal_inflate_reset(st);
                                st->crc_flag = level % 2 ? ISAL_GZIP : ISAL_ZLIB;
                                st->next_out = back;
                                st->avail_out = NDATA;
                                st->avail_in = 0;
                                while (st->block_state != ISAL_BLOCK_FINISH && ret == 0) {
                                        if (st->avail_in == 0) {
                                                uint32_t c = total - fed < 333 ? total - fed : 333;
                                                if (c == 0)
                                                        break;
                                                st->next_in = r->comp[level] + fed;
                                                st->avail_in = c;
                                                fed += c;
                                        }
                                        ret = isal_inflate(st);
                                }
                                r->inflate_sig[level] = isal_adler32(1, back, st->total_out) ^ (uint32_t) ret;
                        }
                }
                free(z);
                free(st);
                free(lb);
                free(back);
        }
}

/* ---------- library writable segments ---------- */
static struct { uintptr_t lo, hi; } segs[16];
static int nsegs;
static volatile long lib_writes, other_faults;
static uintptr_t write_addrs[64];
static int
phdr_cb(struct dl_phdr_info *info, size_t sz, void *p)
{
        int i;
        (void) sz;
        (void) p;
        if (!info->dlpi_name || !strstr(info->dlpi_name, "isal"))
                return 0;
        for (i = 0; i < info->dlpi_phnum; i++) {
                const ElfW(Phdr) *ph = &info->dlpi_phdr[i];
                if (ph->p_type == PT_LOAD && (ph->p_flags & PF_W) && nsegs < 16) {
                        uintptr_t lo = (info->dlpi_addr + ph->p_vaddr) & ~(uintptr_t) 4095;
                        uintptr_t hi = (info->dlpi_addr + ph->p_vaddr + ph->p_memsz + 4095) & ~(uintptr_t) 4095;
                        segs[nsegs].lo = lo;
                        segs[nsegs].hi = hi;
                        nsegs++;
                }
        }
        return 0;
}
static void
on_segv(int sig, siginfo_t *si, void *uc)
{
        uintptr_t a = (uintptr_t) si->si_addr;
        int i;
        (void) sig;
        (void) uc;
        for (i = 0; i < nsegs; i++)
                if (a >= segs[i].lo && a < segs[i].hi) {
                        long k = __sync_fetch_and_add(&lib_writes, 1);
                        if (k < 64)
                                write_addrs[k] = a - segs[0].lo;
                        /* let the store proceed so that the run can continue and report everything */
                        mprotect((void *) (a & ~(uintptr_t) 4095), 4096, PROT_READ | PROT_WRITE);
                        return;
                }
        other_faults++;
        _exit(4);
}

static pthread_barrier_t bar;
static struct result serial[8];
static volatile long mismatches;
static void *
thread_fn(void *arg)
{
        long id = (long) arg;
        struct result *r = malloc(sizeof(*r));
        int rep;
        pthread_barrier_wait(&bar);
        for (rep = 0; rep < 6; rep++) {
                int k = (id + rep) % 8;
                workload(r, k * 37);
                if (memcmp(r, &serial[k], sizeof(*r)) != 0)
                        __sync_fetch_and_add(&mismatches, 1);
        }
        free(r);
        return NULL;
}

struct cold { long id; struct result *r; };
static void *
cold_fn(void *a)
{
        struct cold *c = a;
        pthread_barrier_wait(&bar);
        workload(c->r, (int) (c->id % 8) * 37);
        return NULL;
}

static int
run_threads(int nthreads)
{
        pthread_t th[64];
        long i;
        pthread_barrier_init(&bar, NULL, nthreads);
        for (i = 0; i < nthreads; i++)
                pthread_create(&th[i], NULL, thread_fn, (void *) i);
        for (i = 0; i < nthreads; i++)
                pthread_join(th[i], NULL);
        return 0;
}

/* ---------- reuse ---------- */
static void
dump(FILE *o, const char *name, const unsigned char *b, size_t n, int ret)
{
        size_t i;
        fprintf(o, "{\"name\":\"%s\",\"ret\":%d,\"bytes\":[", name, ret);
        for (i = 0; i < n; i++)
                fprintf(o, i ? ",%u" : "%u", b[i]);
        fprintf(o, "]}\n");
}
static size_t
stream_compress(struct isal_zstream *z, unsigned char *in, size_t n, unsigned char *out, size_t cap, int chunk, int flush)
{
        size_t fed = 0;
        z->next_out = out;
        z->avail_out = cap;
        do {
                if (z->avail_in == 0 && fed < n) {
                        size_t c = n - fed < (size_t) chunk ? n - fed : (size_t) chunk;
                        z->next_in = in + fed;
                        z->avail_in = c;
                        fed += c;
                }
                z->end_of_stream = fed == n;
                z->flush = z->end_of_stream ? 0 : flush;
                if (isal_deflate(z) != COMP_OK)
                        break;
        } while (z->internal_state.state != ZSTATE_END && z->avail_out > 0);
        return cap - z->avail_out;
}
static void
reuse(FILE *o)
{
        static unsigned char A[5000], B[3000], out[20000], lb[ISAL_DEF_LVL3_DEFAULT], back[6000];
        int level, i, dirty;
        for (i = 0; i < 5000; i++)
                A[i] = (unsigned char) ((i * 7) ^ (i >> 5));
        for (i = 0; i < 3000; i++)
                B[i] = "the quick brown fox "[i % 20] ^ (unsigned char) (i >> 8);
        for (level = 0; level < 4; level++)
                for (dirty = 0; dirty < 4; dirty++) {
                        struct isal_zstream *z = malloc(sizeof(*z));
                        char name[64];
                        size_t n;
                        /* dirty 0: fresh zeroed context; 1: garbage-filled then init; 2: compress A, then reset; 3: compress A half-way (abandoned), then init */
                        memset(z, dirty == 1 ? 0xD7 : 0, sizeof(*z));
                        memset(lb, dirty == 1 ? 0x3C : 0, sizeof(lb));
                        memset(out, dirty == 1 ? 0x99 : 0, sizeof(out));
                        isal_deflate_init(z);
                        z->avail_in = 0;
                        z->level = level;
                        z->level_buf = lb;
                        z->level_buf_size = sizeof(lb);
                        z->gzip_flag = IGZIP_GZIP;
                        if (dirty == 2) {
                                stream_compress(z, A, 5000, out, sizeof(out), 700, SYNC_FLUSH);
                                isal_deflate_reset(z);
                                z->avail_in = 0;
                        } else if (dirty == 3) {
                                z->next_in = A;
                                z->avail_in = 2500;
                                z->next_out = out;
                                z->avail_out = 100;
                                isal_deflate(z);
                                isal_deflate_init(z);
                                z->avail_in = 0;
                                z->level = level;
                                z->level_buf = lb;
                                z->level_buf_size = sizeof(lb);
                                z->gzip_flag = IGZIP_GZIP;
                        }
                        n = stream_compress(z, B, 3000, out, sizeof(out), 333, level % 2 ? FULL_FLUSH : NO_FLUSH);
                        sprintf(name, "deflate-level%d-history%d", level, dirty);
                        dump(o, name, out, n, z->internal_state.state == ZSTATE_END ? 0 : -1);
                        if (dirty == 0 || dirty == 2) { /* inflate: fresh vs (inflate something else, reset) */
                                struct inflate_state *st = malloc(sizeof(*st));
                                int ret;
                                memset(st, dirty ? 0xEE : 0, sizeof(*st));
                                isal_inflate_init(st);
                                st->crc_flag = ISAL_GZIP;
                                if (dirty) {
                                        st->next_in = out;
                                        st->avail_in = n / 2;
                                        st->next_out = back;
                                        st->avail_out = 100;
                                        isal_inflate(st);
                                        isal_inflate_reset(st);
                                        st->crc_flag = ISAL_GZIP;
                                }
                                st->next_in = out;
                                st->avail_in = n;
                                st->next_out = back;
                                st->avail_out = sizeof(back);
                                ret = isal_inflate(st);
                                sprintf(name, "inflate-level%d-history%d", level, dirty);
                                dump(o, name, back, st->total_out, ret * 100 + (int) st->block_state);
                                free(st);
                        }
                        free(z);
                }
}


/* ---------- isal_update_histogram: the counts added by a call depend on the data only, not on what the structure's scratch hash table held
 * before (left by an earlier call on related data, or garbage).  history 0: zeroed structure; 1: after a call on the same data, counts
 * cleared; 2: after a call on a shifted copy of the data, counts cleared; 3: scratch filled with small positions; 4: scratch all ones ---------- */
static void
histogram_reuse(FILE *o)
{
        static unsigned char A[40000], B[40000];
        static struct isal_huff_histogram h;
        int i, hist, variant;
        uint32_t x = 7;
        for (i = 0; i < 40000; i++) {   /* text-like: words of a small vocabulary, so that 4-byte sequences recur at many distances */
                static const char *w[] = { "stream ", "buffer ", "window ", "match ", "literal ", "length ", "distance ", "block ", "header ", "table " };
                static int wi, wp;
                if (!w[wi][wp]) {
                        x = x * 1664525u + 1013904223u;
                        wi = (x >> 24) % 10;
                        wp = 0;
                }
                A[i] = (unsigned char) w[wi][wp++];
        }
        memcpy(B, A + 1237, 40000 - 1237);
        memcpy(B + 40000 - 1237, A, 1237);
        for (variant = 0; variant < 3; variant++) {
                int n = variant == 0 ? 40000 : variant == 1 ? 9000 : 700;
                for (hist = 0; hist < 7; hist++) {
                        char name[64];
                        unsigned char sig[ISAL_DEF_LIT_LEN_SYMBOLS * 4 + ISAL_DEF_DIST_SYMBOLS * 4];
                        memset(&h, 0, sizeof(h));
                        if (hist >= 5) { /* a call on the same data with every 97th (61st) byte altered: the matches break elsewhere, so other positions get hashed */
                                memcpy(B, A, 40000);
                                for (i = 50; i < 40000; i += (hist == 5 ? 97 : 61))
                                        B[i] ^= 0x20;
                                isal_update_histogram(B, 40000, &h);
                                memcpy(B, A + 1237, 40000 - 1237);
                                memcpy(B + 40000 - 1237, A, 1237);
                        }
                        if (hist == 1)
                                isal_update_histogram(A, n, &h);
                        else if (hist == 2)
                                isal_update_histogram(B, 40000, &h);
                        else if (hist == 3)
                                for (i = 0; i < IGZIP_LVL0_HASH_SIZE; i++)
                                        h.hash_table[i] = (uint16_t) (i * 37 % (n > 4 ? n - 4 : 1));
                        else if (hist == 4)
                                memset(h.hash_table, 0xff, sizeof(h.hash_table));
                        memset(h.lit_len_histogram, 0, sizeof(h.lit_len_histogram));
                        memset(h.dist_histogram, 0, sizeof(h.dist_histogram));
                        isal_update_histogram(A, n, &h);
                        for (i = 0; i < ISAL_DEF_LIT_LEN_SYMBOLS; i++)
                                memcpy(sig + 4 * i, &h.lit_len_histogram[i], 4);
                        for (i = 0; i < ISAL_DEF_DIST_SYMBOLS; i++)
                                memcpy(sig + 4 * (ISAL_DEF_LIT_LEN_SYMBOLS + i), &h.dist_histogram[i], 4);
                        sprintf(name, "histogram-size%d-history%d", variant, hist);
                        dump(o, name, sig, sizeof(sig), 0);
                }
        }
}

/* ... and swept: the scratch hash table filled with one value v, for every position v of the input (any slot the routine fails to clear then
 * offers position v as a match candidate to every sequence hashing there); signatures different from the zeroed structure's are dumped */
static void
histogram_prefill_sweep(FILE *o)
{
        static unsigned char A[2000];
        static struct isal_huff_histogram h;
        unsigned char first[(ISAL_DEF_LIT_LEN_SYMBOLS + ISAL_DEF_DIST_SYMBOLS) * 4], sig[sizeof(first)];
        int i, v, others = 0;
        uint32_t x = 11;
        static const char *w[] = { "stream ", "buffer ", "window ", "match ", "literal ", "length ", "distance ", "block ", "header ", "table ", "code ", "symbol " };
        int wi = 0, wp = 0;
        for (i = 0; i < 2000; i++) {
                if (!w[wi][wp]) {
                        x = x * 1664525u + 1013904223u;
                        wi = (x >> 24) % 12;
                        wp = 0;
                }
                A[i] = (unsigned char) w[wi][wp++];
        }
        /* many short inputs built so that a 4-byte sequence first occurs INSIDE a match (where it is not entered into the table) and then again:
         * U[20] U[20] z0 z1 filler (U[18] U[19] z0 z1) tail; the scratch table is filled with the position of the first occurrence */
        for (v = 0; v < 30000 && others < 4; v++) {
                unsigned char B[120], s0[sizeof(first)];
                int pass;
                for (i = 0; i < 120; i++) {
                        x = x * 1664525u + 1013904223u;
                        B[i] = (unsigned char) (x >> 24);
                }
                memcpy(B + 20, B, 20);
                memcpy(B + 70, B + 38, 4);
                for (pass = 0; pass < 2; pass++) {
                        memset(&h, 0, sizeof(h));
                        if (pass)
                                for (i = 0; i < IGZIP_LVL0_HASH_SIZE; i++)
                                        h.hash_table[i] = 38;
                        isal_update_histogram(B, 120, &h);
                        for (i = 0; i < ISAL_DEF_LIT_LEN_SYMBOLS; i++)
                                memcpy(sig + 4 * i, &h.lit_len_histogram[i], 4);
                        for (i = 0; i < ISAL_DEF_DIST_SYMBOLS; i++)
                                memcpy(sig + 4 * (ISAL_DEF_LIT_LEN_SYMBOLS + i), &h.dist_histogram[i], 4);
                        if (!pass)
                                memcpy(s0, sig, sizeof(sig));
                }
                if (v == 0 || memcmp(s0, sig, sizeof(sig))) {
                        char name[64];
                        sprintf(name, "histogram-short-%d-history0", v);
                        dump(o, name, s0, sizeof(s0), 0);
                        sprintf(name, "histogram-short-%d-history1", v);
                        dump(o, name, sig, sizeof(sig), 0);
                        if (v)
                                others++;
                }
        }
        others = 0;
        for (v = -1; v < 2000; v++) {
                memset(&h, 0, sizeof(h));
                if (v >= 0)
                        for (i = 0; i < IGZIP_LVL0_HASH_SIZE; i++)
                                h.hash_table[i] = (uint16_t) v;
                isal_update_histogram(A, 2000, &h);
                for (i = 0; i < ISAL_DEF_LIT_LEN_SYMBOLS; i++)
                        memcpy(sig + 4 * i, &h.lit_len_histogram[i], 4);
                for (i = 0; i < ISAL_DEF_DIST_SYMBOLS; i++)
                        memcpy(sig + 4 * (ISAL_DEF_LIT_LEN_SYMBOLS + i), &h.dist_histogram[i], 4);
                if (v < 0) {
                        memcpy(first, sig, sizeof(sig));
                        dump(o, "histogram-prefill-first", sig, sizeof(sig), 0);
                } else if (memcmp(first, sig, sizeof(sig)) && others < 4) {
                        char name[64];
                        sprintf(name, "histogram-prefill-other-%d", v);
                        dump(o, name, sig, sizeof(sig), 0);
                        others++;
                }
        }
}

/* ---------- the output must not depend on WHERE the context lives: the same one-shot and streaming compression with the isal_zstream at many
 * different addresses (64 KiB apart, so that every address bit above the page offset varies); distinct outputs are dumped for TLC to compare ---------- */
static void
address_independence(FILE *o)
{
        enum { SLOTS = 4096, N = 600 };
        static unsigned char in[N], out[4096], first[4][2][4096], lb[ISAL_DEF_LVL3_DEFAULT];
        size_t flen[4][2];
        int level, mode, k, i, ndiff[4][2];
        unsigned char *arena = mmap(NULL, (size_t) SLOTS * 65536 + 65536, PROT_NONE, MAP_PRIVATE | MAP_ANONYMOUS | MAP_NORESERVE, -1, 0);
        uintptr_t base;
        uint64_t r = 0x9E3779B97F4A7C15ULL;
        if (arena == MAP_FAILED)
                return;
        base = ((uintptr_t) arena + 0xffff) & ~(uintptr_t) 0xffff;
        /* 16 distinct bytes, noise, the same 16 bytes again (a match back to the very start of the stream), a run */
        for (i = 0; i < N; i++) {
                r = r * 6364136223846793005ULL + 1442695040888963407ULL;
                in[i] = (unsigned char) (r >> 56);
        }
        memcpy(in + 200, in, 16);
        memcpy(in + 400, in + 1, 24);
        memset(in + 500, 'z', 60);
        memset(ndiff, 0, sizeof(ndiff));
        for (k = 0; k < SLOTS; k++) {
                struct isal_zstream *z = (struct isal_zstream *) (base + (uintptr_t) k * 65536);
                if (mprotect(z, (sizeof(*z) + 4095) & ~4095ul, PROT_READ | PROT_WRITE))
                        continue;
                for (level = 0; level < 4; level++)
                        for (mode = 0; mode < 2; mode++) {
                                size_t n;
                                memset(lb, 0, sizeof(lb));
                                if (mode == 0) {
                                        isal_deflate_stateless_init(z);
                                        z->level = level;
                                        z->level_buf = lb;
                                        z->level_buf_size = sizeof(lb);
                                        z->next_in = in;
                                        z->avail_in = N;
                                        z->next_out = out;
                                        z->avail_out = sizeof(out);
                                        z->end_of_stream = 1;
                                        if (isal_deflate_stateless(z) != COMP_OK)
                                                continue;
                                        n = z->total_out;
                                } else {
                                        isal_deflate_init(z);
                                        z->avail_in = 0;
                                        z->level = level;
                                        z->level_buf = lb;
                                        z->level_buf_size = sizeof(lb);
                                        n = stream_compress(z, in, N, out, sizeof(out), 250, FULL_FLUSH);
                                }
                                if (k == 0) {
                                        memcpy(first[level][mode], out, n);
                                        flen[level][mode] = n;
                                } else if ((n != flen[level][mode] || memcmp(first[level][mode], out, n)) && ndiff[level][mode] < 2) {
                                        char name[80];
                                        sprintf(name, "address-level%d-mode%d-other%d", level, mode, ndiff[level][mode]++);
                                        dump(o, name, out, n, k);
                                }
                        }
                munmap(z, (sizeof(*z) + 4095) & ~4095ul);
        }
        for (level = 0; level < 4; level++)
                for (mode = 0; mode < 2; mode++) {
                        char name[80];
                        sprintf(name, "address-level%d-mode%d-first", level, mode);
                        dump(o, name, first[level][mode], flen[level][mode], 0);
                }
}

/* ---------- reuse, one-shot compressor: a context (and its level buffer) that already served isal_deflate_stateless calls versus a fresh one ---------- */
static void
stateless_reuse(FILE *o)
{
        static unsigned char A[3][98304], B[40960], outA[140000], outB[60000];
        static unsigned char lb[ISAL_DEF_LVL3_DEFAULT];
        int level, h, lbc, i;
        uint32_t x = 777;
        for (i = 0; i < 98304; i++) {
                x = x * 1664525u + 1013904223u;
                A[0][i] = (unsigned char) (x >> 24);                       /* incompressible: falls back to stored blocks */
                A[1][i] = "abcabcabdabcabe "[i % 16] ^ (unsigned char) (i >> 11); /* compressible */
                A[2][i] = (unsigned char) ((x >> 28) + 'a');               /* small alphabet */
        }
        for (i = 0; i < 40960; i++)
                B[i] = "reuse of a one-shot context must not show "[i % 42] ^ (unsigned char) ((i >> 9) & 3);
        for (level = 0; level < 4; level++)
                for (lbc = 0; lbc < 2; lbc++)
                        for (h = 0; h < 8; h++) {
                                struct isal_zstream *z = malloc(sizeof(*z));
                                static const uint32_t mins[4] = { ISAL_DEF_LVL0_MIN, ISAL_DEF_LVL1_MIN, ISAL_DEF_LVL2_MIN, ISAL_DEF_LVL3_MIN };
                                uint32_t lbs = lbc ? sizeof(lb) : mins[level];
                                char name[64];
                                int ret;
                                /* history 0: fresh; 1: garbage-filled context and level buffer, then init; 2..4: one earlier call on A[h-2], re-initialised;
                                 * 5: an earlier call that overflowed its output; 6, 7: earlier call, then isal_deflate_reset / isal_deflate_init */
                                memset(z, h == 1 ? 0x6B : 0, sizeof(*z));
                                memset(lb, h == 1 ? 0xB6 : 0, sizeof(lb));
                                isal_deflate_stateless_init(z);
                                z->level = level;
                                z->level_buf = lb;
                                z->level_buf_size = lbs;
                                z->gzip_flag = IGZIP_GZIP;
                                if (h >= 2) {
                                        z->next_in = A[h == 5 ? 1 : h >= 6 ? h - 6 : h - 2];
                                        z->avail_in = h == 5 ? 50000 : 98304;
                                        z->next_out = outA;
                                        z->avail_out = h == 5 ? 300 : sizeof(outA);
                                        z->end_of_stream = 1;
                                        isal_deflate_stateless(z);
                                        /* re-initialise (2..5: isal_deflate_stateless_init, 6: isal_deflate_reset, 7: isal_deflate_init); the level buffer keeps
                                         * whatever the earlier call left in it */
                                        if (h == 6)
                                                isal_deflate_reset(z);
                                        else if (h == 7)
                                                isal_deflate_init(z);
                                        else
                                                isal_deflate_stateless_init(z);
                                        z->level = level;
                                        z->level_buf = lb;
                                        z->level_buf_size = lbs;
                                        z->gzip_flag = IGZIP_GZIP;
                                        z->flush = NO_FLUSH;
                                }
                                z->next_in = B;
                                z->avail_in = sizeof(B);
                                z->next_out = outB;
                                z->avail_out = sizeof(outB);
                                z->end_of_stream = 1;
                                ret = isal_deflate_stateless(z);
                                sprintf(name, "stateless-level%d-lbuf%d-history%d", level, lbc, h);
                                dump(o, name, outB, ret == COMP_OK ? sizeof(outB) - z->avail_out : 0, ret);
                                free(z);
                        }
}

#include <setjmp.h>
static sigjmp_buf reuse_jmp;
static void
reuse_segv(int sig)
{
        (void) sig;
        siglongjmp(reuse_jmp, 1);
}
/* ---------- a one-shot call at level 1 may borrow the context's own buffer when level_buf is NULL: the caller's level_buf / level_buf_size must read
 * the same afterwards, and a streaming call after isal_deflate_reset must treat the missing level buffer exactly like a fresh context does ---------- */
static void
null_level_buf_reuse(FILE *o)
{
        static unsigned char in[3000], out[8000];
        int h, i;
        for (i = 0; i < 3000; i++)
                in[i] = "level one without a level buffer "[i % 33] ^ (unsigned char) (i >> 9);
        for (h = 0; h < 2; h++) {
                struct isal_zstream *z = calloc(1, sizeof(*z));
                unsigned char rec[16];
                int r1 = 0, r2;
                char name[64];
                if (h == 1) {
                        isal_deflate_stateless_init(z);
                        z->level = 1;
                        z->level_buf = NULL;
                        z->level_buf_size = 0;
                        z->next_in = in;
                        z->avail_in = 3000;
                        z->next_out = out;
                        z->avail_out = sizeof(out);
                        z->end_of_stream = 1;
                        r1 = isal_deflate_stateless(z);
                        rec[0] = z->level_buf != NULL; /* the caller's field */
                        rec[1] = z->level_buf_size != 0;
                        isal_deflate_reset(z);
                } else {
                        isal_deflate_init(z);
                        rec[0] = rec[1] = 0;
                }
                z->level = 1;
                z->next_in = in;
                z->avail_in = 3000;
                z->next_out = out;
                z->avail_out = sizeof(out);
                z->end_of_stream = 1;
                z->flush = NO_FLUSH;
                if (sigsetjmp(reuse_jmp, 1))
                        r2 = -99; /* crashed */
                else
                        r2 = isal_deflate(z);
                rec[2] = (unsigned char) r1;
                rec[3] = (unsigned char) r2;
                rec[4] = (unsigned char) (z->total_out & 255);
                sprintf(name, "nulllbuf-history%d", h);
                dump(o, name, rec, 5, 0);
                free(z);
        }
}

/* ---------- reuse, decompressor: (history, isal_inflate_reset) versus a fresh context, for several histories and follow-up uses ---------- */
static size_t
make_gzip(unsigned char *dst, size_t cap, const unsigned char *data, size_t n, int with_extra, int with_name, int with_comment, int hcrc)
{
        struct isal_zstream z;
        struct isal_gzip_header h;
        static unsigned char extra[40];
        size_t i;
        for (i = 0; i < sizeof(extra); i++)
                extra[i] = (unsigned char) (i * 3 + 1);
        isal_deflate_stateless_init(&z);
        isal_gzip_header_init(&h);
        if (with_extra) {
                h.extra = extra;
                h.extra_len = 4 + 20;
                extra[0] = 'A';
                extra[1] = 'p';
                extra[2] = 20;
                extra[3] = 0;
                h.extra_buf_len = sizeof(extra);
        }
        if (with_name) {
                h.name = "hello-world.txt";
                h.name_buf_len = 16;
        }
        if (with_comment) {
                h.comment = "a comment of some length";
                h.comment_buf_len = 25;
        }
        h.hcrc = hcrc;
        h.time = 0x01020304;
        h.os = 3;
        z.next_out = dst;
        z.avail_out = cap;
        if (isal_write_gzip_header(&z, &h) != 0)
                return 0;
        z.next_in = (unsigned char *) data;
        z.avail_in = n;
        z.end_of_stream = 1;
        z.gzip_flag = IGZIP_GZIP_NO_HDR;
        z.level = 0;
        if (isal_deflate_stateless(&z) != COMP_OK)
                return 0;
        return cap - z.avail_out;
}
static size_t
make_zlib(unsigned char *dst, size_t cap, const unsigned char *data, size_t n, int fdict)
{
        struct isal_zstream z;
        struct isal_zlib_header h;
        isal_deflate_stateless_init(&z);
        isal_zlib_header_init(&h);
        h.info = 7;
        h.level = 1;
        h.dict_flag = fdict;
        h.dict_id = 0x0A0B0C0D;
        z.next_out = dst;
        z.avail_out = cap;
        if (isal_write_zlib_header(&z, &h) != 0)
                return 0;
        z.next_in = (unsigned char *) data;
        z.avail_in = n;
        z.end_of_stream = 1;
        z.gzip_flag = IGZIP_ZLIB_NO_HDR;
        if (isal_deflate_stateless(&z) != COMP_OK)
                return 0;
        return cap - z.avail_out;
}
static size_t
make_stored(unsigned char *dst, const unsigned char *data, size_t n)
{ /* one final stored block */
        dst[0] = 1;
        dst[1] = n & 255;
        dst[2] = n >> 8;
        dst[3] = ~dst[1];
        dst[4] = ~dst[2];
        memcpy(dst + 5, data, n);
        return n + 5;
}
/* a fixed-Huffman block: 10 literals, a 258-byte match at distance 300 (reaching before the start of the output), 64 literals, end of block */
static size_t
make_bad_lookback(unsigned char *dst)
{
        uint32_t bitpos = 0;
        int i;
#define PUTB(v, n)                                                                                 \
        do {                                                                                       \
                int i_;                                                                            \
                for (i_ = 0; i_ < (n); i_++, bitpos++)                                             \
                        if (((v) >> i_) & 1)                                                       \
                                dst[bitpos >> 3] |= 1 << (bitpos & 7);                             \
        } while (0)
#define PUTH(code, n)                                                                              \
        do {                                                                                       \
                int j_;                                                                            \
                for (j_ = (n) - 1; j_ >= 0; j_--)                                                  \
                        PUTB(((code) >> j_) & 1, 1);                                               \
        } while (0)
        memset(dst, 0, 128);
        PUTB(1, 1);
        PUTB(1, 2);
        for (i = 0; i < 10; i++)
                PUTH(0x30 + 'A' + i, 8);
        PUTH(0xC0 + 5, 8); /* symbol 285: length 258 */
        PUTH(16, 5);       /* distance symbol 16: 257.. with 7 extra bits */
        PUTB(43, 7);       /* distance 300 */
        for (i = 0; i < 64; i++)
                PUTH(0x30 + 'a' + i % 26, 8);
        PUTH(0, 7);
        return (bitpos + 7) / 8 + 16;
}
struct obs {
        unsigned char b[9000];
        size_t n;
};
static void
put(struct obs *o, const void *p, size_t n)
{
        if (o->n + n <= sizeof(o->b)) {
                memcpy(o->b + o->n, p, n);
                o->n += n;
        }
}
static void
put32(struct obs *o, uint32_t x)
{
        put(o, &x, 4);
}
static void
inflate_rest(struct inflate_state *st, const unsigned char *in, size_t n, size_t chunk, size_t ochunk, struct obs *o)
{
        static unsigned char back[8000];
        size_t fed = 0;
        int ret = 0, guard = 0;
        while (guard++ < 20000) {
                if (st->avail_in == 0 && fed < n) {
                        size_t c = n - fed < chunk ? n - fed : chunk;
                        st->next_in = (unsigned char *) in + fed;
                        st->avail_in = c;
                        fed += c;
                }
                st->next_out = back;
                st->avail_out = ochunk;
                ret = isal_inflate(st);
                put(o, back, ochunk - st->avail_out);
                if (ret != ISAL_DECOMP_OK || st->block_state == ISAL_BLOCK_FINISH)
                        break;
                if (fed == n && st->avail_in == 0 && st->avail_out == ochunk)
                        break;
        }
        put32(o, (uint32_t) ret);
        put32(o, st->block_state);
        put32(o, st->total_out);
        put32(o, st->crc);
}
static void
inflate_reuse(FILE *o)
{
        static unsigned char D[2500], E[1800], g_full[4000], g_name[4000], g_extra[4000], z_plain[4000], z_dict[4000], raw_stored[3000], bad[64];
        size_t n_full, n_name, n_extra, n_zp, n_zd, n_rs;
        int h, b, i;
        for (i = 0; i < 2500; i++)
                D[i] = "reset must equal fresh "[i % 23] ^ (unsigned char) (i >> 7);
        for (i = 0; i < 1800; i++)
                E[i] = (unsigned char) ((i * 11) ^ (i >> 3));
        n_full = make_gzip(g_full, sizeof(g_full), D, 2500, 1, 1, 1, 1);
        n_name = make_gzip(g_name, sizeof(g_name), E, 1800, 0, 1, 1, 0);
        n_extra = make_gzip(g_extra, sizeof(g_extra), E, 900, 1, 0, 0, 0);
        n_zp = make_zlib(z_plain, sizeof(z_plain), D, 2000, 0);
        n_zd = make_zlib(z_dict, sizeof(z_dict), D, 600, 1);
        n_rs = make_stored(raw_stored, E, 1500);
        memset(bad, 0xff, sizeof(bad));
        bad[0] = 0x07; /* BTYPE 3 */
        for (b = 0; b < 7; b++)
                for (h = 0; h < 10; h++) {
                        struct inflate_state *st = malloc(sizeof(*st));
                        struct isal_gzip_header gh;
                        struct isal_zlib_header zh;
                        static unsigned char nm[64], cm[64], ex[64], tmp[4000];
                        struct obs ob;
                        char name[64];
                        int r;
                        ob.n = 0;
                        /* history 0: zeroed + init; 1: garbage + init; 2..9: init, do something else, isal_inflate_reset */
                        memset(st, h == 1 ? 0xC3 : 0, sizeof(*st));
                        isal_inflate_init(st);
                        memset(nm, 0x55, sizeof(nm));
                        memset(cm, 0x55, sizeof(cm));
                        memset(ex, 0x55, sizeof(ex));
                        if (h >= 2) {
                                isal_gzip_header_init(&gh);
                                gh.name = (char *) nm;
                                gh.name_buf_len = sizeof(nm);
                                gh.comment = (char *) cm;
                                gh.comment_buf_len = sizeof(cm);
                                gh.extra = ex;
                                gh.extra_buf_len = sizeof(ex);
                                st->next_out = tmp;
                                st->avail_out = sizeof(tmp);
                                switch (h) {
                                case 2: /* gzip header parse abandoned in the middle of the name */
                                        st->crc_flag = ISAL_GZIP;
                                        st->next_in = g_name;
                                        st->avail_in = 10 + 7;
                                        isal_read_gzip_header(st, &gh);
                                        break;
                                case 3: /* ... in the middle of the extra field */
                                        st->crc_flag = ISAL_GZIP;
                                        st->next_in = g_extra;
                                        st->avail_in = 10 + 2 + 9;
                                        isal_read_gzip_header(st, &gh);
                                        break;
                                case 4: /* stream abandoned inside a stored block */
                                        st->next_in = raw_stored;
                                        st->avail_in = 700;
                                        st->avail_out = 300;
                                        isal_inflate(st);
                                        break;
                                case 5: /* zlib stream asking for a preset dictionary */
                                        st->crc_flag = ISAL_ZLIB;
                                        st->next_in = z_dict;
                                        st->avail_in = n_zd;
                                        isal_inflate(st);
                                        break;
                                case 6: /* a complete gzip member */
                                        st->crc_flag = ISAL_GZIP;
                                        st->next_in = g_full;
                                        st->avail_in = n_full;
                                        isal_inflate(st);
                                        break;
                                case 7: /* an invalid stream */
                                        st->next_in = bad;
                                        st->avail_in = sizeof(bad);
                                        isal_inflate(st);
                                        break;
                                case 8: /* a dictionary, then half a stream with the output nearly full */
                                        isal_inflate_set_dict(st, D, 1200);
                                        st->crc_flag = ISAL_ZLIB;
                                        st->next_in = z_plain;
                                        st->avail_in = n_zp / 2;
                                        st->avail_out = 33;
                                        isal_inflate(st);
                                        break;
                                case 9: /* header through isal_inflate, split inside the comment; body not started */
                                        st->crc_flag = ISAL_GZIP;
                                        st->next_in = g_full;
                                        st->avail_in = 10 + 2 + 24 + 16 + 5;
                                        isal_inflate(st);
                                        break;
                                }
                                isal_inflate_reset(st);
                                memset(nm, 0x55, sizeof(nm));
                                memset(cm, 0x55, sizeof(cm));
                                memset(ex, 0x55, sizeof(ex));
                        }
                        /* parameters are the caller's and survive a reset: set every one of them for the follow-up use */
                        st->next_in = NULL;
                        st->avail_in = 0;
                        st->hist_bits = 0;
                        st->crc_flag = ISAL_DEFLATE;
                        if (sigsetjmp(reuse_jmp, 1)) {
                                sprintf(name, "inflate-use%d-history%d", b, h);
                                ob.n = 0;
                                put32(&ob, 0xdeadbeef); /* crashed */
                                dump(o, name, ob.b, ob.n, -11);
                                continue;
                        }
                        switch (b) {
                        case 0: /* header read directly into caller buffers (name + comment, no extra), then the body */
                        case 1: /* the same with every optional field */
                                isal_gzip_header_init(&gh);
                                gh.name = (char *) nm;
                                gh.name_buf_len = sizeof(nm);
                                gh.comment = (char *) cm;
                                gh.comment_buf_len = sizeof(cm);
                                gh.extra = ex;
                                gh.extra_buf_len = sizeof(ex);
                                st->crc_flag = ISAL_GZIP;
                                st->next_in = b ? g_full : g_name;
                                st->avail_in = b ? n_full : n_name;
                                r = isal_read_gzip_header(st, &gh);
                                put32(&ob, (uint32_t) r);
                                put(&ob, nm, sizeof(nm));
                                put(&ob, cm, sizeof(cm));
                                put(&ob, ex, sizeof(ex));
                                put32(&ob, gh.extra_len);
                                put32(&ob, gh.flags);
                                put32(&ob, gh.time);
                                put32(&ob, gh.os);
                                put32(&ob, st->avail_in);
                                if (r == ISAL_DECOMP_OK) {
                                        const unsigned char *p = st->next_in;
                                        size_t left = st->avail_in;
                                        st->avail_in = 0;
                                        inflate_rest(st, p, left, 100, 257, &ob);
                                }
                                break;
                        case 2: /* whole gzip member through isal_inflate, 7-byte input pieces */
                                st->crc_flag = ISAL_GZIP;
                                inflate_rest(st, g_full, n_full, 7, 50, &ob);
                                break;
                        case 3: /* zlib, header read directly */
                                isal_zlib_header_init(&zh);
                                st->crc_flag = ISAL_ZLIB;
                                st->next_in = z_dict;
                                st->avail_in = n_zd;
                                r = isal_read_zlib_header(st, &zh);
                                put32(&ob, (uint32_t) r);
                                put32(&ob, zh.info);
                                put32(&ob, zh.level);
                                put32(&ob, zh.dict_id);
                                put32(&ob, zh.dict_flag);
                                {
                                        const unsigned char *p = st->next_in;
                                        size_t left = st->avail_in;
                                        st->avail_in = 0;
                                        inflate_rest(st, p, left, 64, 300, &ob);
                                }
                                break;
                        case 4: /* raw stored block, 1-byte output pieces first */
                                inflate_rest(st, raw_stored, n_rs, 13, 1, &ob);
                                break;
                        case 5: /* zlib through isal_inflate, large pieces */
                                st->crc_flag = ISAL_ZLIB;
                                inflate_rest(st, z_plain, n_zp, 1000, 4000, &ob);
                                break;
                        case 6: { /* an invalid stream (a match reaching before the start of the output), plenty of room: the error code, what the call
                                   * reports as produced and the bytes it hands over must not depend on what the context decoded before */
                                static unsigned char badl[160], o6[4096];
                                size_t nb = make_bad_lookback(badl);
                                memset(o6, 0, sizeof(o6));
                                st->next_in = badl;
                                st->avail_in = nb;
                                st->next_out = o6;
                                st->avail_out = sizeof(o6);
                                r = isal_inflate(st);
                                put32(&ob, (uint32_t) r);
                                put32(&ob, (uint32_t) (sizeof(o6) - st->avail_out));
                                put32(&ob, st->total_out);
                                put(&ob, o6, 600);
                                break;
                        }
                        }
                        sprintf(name, "inflate-use%d-history%d", b, h);
                        dump(o, name, ob.b, ob.n, 0);
                        free(st);
                }
}

int
main(int argc, char **argv)
{
        int i;
        struct sigaction sa;
        for (i = 0; i < NDATA; i++)
                data[i] = (unsigned char) ((i * 2654435761u) >> 13) ^ (unsigned char) "isa-l verification "[i % 19];
        if (argc < 2)
                return 3;
        if (!strcmp(argv[1], "mt")) {
                int nthreads = atoi(argv[2]);
                for (i = 0; i < 8; i++)
                        workload(&serial[i], i * 37); /* warm-up: every entry point used is resolved, results recorded */
                dl_iterate_phdr(phdr_cb, NULL);
                memset(&sa, 0, sizeof(sa));
                sa.sa_sigaction = on_segv;
                sa.sa_flags = SA_SIGINFO;
                sigaction(SIGSEGV, &sa, NULL);
                for (i = 0; i < nsegs; i++)
                        mprotect((void *) segs[i].lo, segs[i].hi - segs[i].lo, PROT_READ);
                run_threads(nthreads);
                printf("{\"mode\":\"mt\",\"threads\":%d,\"segments\":%d,\"seg_bytes\":%lu,\"lib_writes\":%ld,\"mismatches\":%ld,\"first_offsets\":[", nthreads, nsegs,
                       nsegs ? (unsigned long) (segs[nsegs - 1].hi - segs[0].lo) : 0, lib_writes, mismatches);
                for (i = 0; i < lib_writes && i < 64; i++)
                        printf(i ? ",%lu" : "%lu", (unsigned long) write_addrs[i]);
                printf("]}\n");
                return 0;
        }
        if (!strcmp(argv[1], "cold")) {
                int nthreads = atoi(argv[2]);
                /* nothing has been called yet: every first call happens inside the threads, released together */
                struct result *tmp = malloc(sizeof(*tmp) * 8);
                pthread_t th[64];
                long k;
                pthread_barrier_init(&bar, NULL, nthreads);
                /* serial[] is filled AFTER the race, by the main thread */
                memset(serial, 0, sizeof(serial));
                {
                        /* threads compare against serial[] later: record their own results instead */
                        static struct result tr[64];
                        struct cold args[64];
                        for (k = 0; k < nthreads; k++) {
                                args[k].id = k;
                                args[k].r = &tr[k];
                                pthread_create(&th[k], NULL, cold_fn, &args[k]);
                        }
                        for (k = 0; k < nthreads; k++)
                                pthread_join(th[k], NULL);
                        for (i = 0; i < 8; i++)
                                workload(&serial[i], i * 37);
                        for (k = 0; k < nthreads; k++)
                                if (memcmp(&tr[k], &serial[k % 8], sizeof(struct result)))
                                        mismatches++;
                }
                free(tmp);
                printf("{\"mode\":\"cold\",\"threads\":%d,\"mismatches\":%ld}\n", nthreads, mismatches);
                return 0;
        }
        if (!strcmp(argv[1], "reuse")) {
                FILE *o = fopen(argv[2], "w");
                reuse(o);
                histogram_reuse(o);
                histogram_prefill_sweep(o);
                address_independence(o);
                stateless_reuse(o);
                signal(SIGSEGV, reuse_segv);
                signal(SIGBUS, reuse_segv);
                null_level_buf_reuse(o);
                inflate_reuse(o);
                fclose(o);
                return 0;
        }
        return 3;
}
