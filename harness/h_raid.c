/* C08: replay TLC-generated RAID vectors (sources, expected P and Q from spec/Raid.tla) into every
 * xor_gen / pq_gen / xor_check / pq_check variant for every legal len, guard placements, every
 * single-byte corruption position for small len, and below-minimum vects with inaccessible pointers. */
#include "vh.h"
#include "raid.h"
#define W __attribute__((weak))
typedef int (*raid_fn)(int, int, void **);
extern int xor_gen_avx512(int, int, void **) W;
extern int pq_gen_avx512(int, int, void **) W;
extern int xor_gen_avx(int, int, void **) W;
extern int pq_gen_avx(int, int, void **) W;
extern int pq_gen_avx2(int, int, void **) W;
struct fn { const char *name; raid_fn f; };
static struct fn xg[] = { { "xor_gen_base", xor_gen_base }, { "xor_gen", xor_gen }, { "xor_gen_sse", xor_gen_sse },
        { "xor_gen_avx", xor_gen_avx }, { "xor_gen_avx512", xor_gen_avx512 }, { 0, 0 } };
static struct fn pg[] = { { "pq_gen_base", pq_gen_base }, { "pq_gen", pq_gen }, { "pq_gen_sse", pq_gen_sse },
        { "pq_gen_avx", pq_gen_avx }, { "pq_gen_avx2", pq_gen_avx2 }, { "pq_gen_avx512", pq_gen_avx512 }, { 0, 0 } };
static struct fn xc[] = { { "xor_check_base", xor_check_base }, { "xor_check", xor_check }, { "xor_check_sse", xor_check_sse }, { 0, 0 } };
static struct fn pc[] = { { "pq_check_base", pq_check_base }, { "pq_check", pq_check }, { "pq_check_sse", pq_check_sse }, { 0, 0 } };

#define MAXS 260
static int S, N, vec_id;
static unsigned char *src[MAXS], *eP, *eQ;
static struct vh_region reg[MAXS + 2];
static FILE *out;
static long calls, mism, corruptions, belowmin;

static void
report(const char *what, const char *fn, int vects, int len, int pl, int a, int b)
{
        mism++;
        if (mism <= 40)
                fprintf(out, "{\"e\":\"mismatch\",\"what\":\"%s\",\"fn\":\"%s\",\"vec\":%d,\"vects\":%d,\"len\":%d,\"placement\":%d,\"a\":%d,\"b\":%d}\n",
                        what, fn, vec_id, vects, len, pl, a, b);
}

/* place nsrc sources + extra parity buffers; all pointers 32-byte aligned */
static void
place(void **arr, int nsrc, int nextra, int len, int pl)
{
        int j, pad = pl == VH_END ? (32 - len % 32) % 32 : pl == VH_MID ? 32 * (len % 4) : 0;
        for (j = 0; j < nsrc + nextra; j++) {
                vh_fill(&reg[j], VH_CANARY);
                arr[j] = vh_place(&reg[j], len, pl, pad);
                if (j < nsrc)
                        memcpy(arr[j], src[j], len);
        }
}
static void
check_common(const char *fn, void **arr, int nsrc, int nextra, int len, int pl)
{
        int j;
        for (j = 0; j < nsrc + nextra; j++) {
                if (j < nsrc && memcmp(arr[j], src[j], len))
                        report("source-modified", fn, nsrc + nextra, len, pl, j, 0);
                if (vh_outside_intact(&reg[j], arr[j], len, VH_CANARY) != 0x7fffffff)
                        report("write-outside", fn, nsrc + nextra, len, pl, j, 0);
        }
}

static void
gen_tests(struct fn *f, int pq, int nsrc, int len)
{
        void *arr[MAXS + 2];
        int pl, ret = 0, faulted, nx = pq ? 2 : 1, i;
        for (pl = 0; pl < 3; pl++) {
                place(arr, nsrc, nx, len, pl);
                faulted = 0;
                VH_TRY { ret = f->f(nsrc + nx, len, arr); }
                VH_CATCH { faulted = 1; }
                VH_DONE;
                calls++;
                if (faulted) {
                        report("fault", f->name, nsrc + nx, len, pl, 0, 0);
                        continue;
                }
                if (ret != 0)
                        report("gen-returned-nonzero", f->name, nsrc + nx, len, pl, ret, 0);
                for (i = 0; i < len; i++)
                        if (((unsigned char *) arr[nsrc])[i] != eP[i]) {
                                report("wrong-P", f->name, nsrc + nx, len, pl, i, 0);
                                break;
                        }
                if (pq)
                        for (i = 0; i < len; i++)
                                if (((unsigned char *) arr[nsrc + 1])[i] != eQ[i]) {
                                        report("wrong-Q", f->name, nsrc + nx, len, pl, i, 0);
                                        break;
                                }
                check_common(f->name, arr, nsrc, nx, len, pl);
        }
}

static void
check_tests(struct fn *f, int pq, int nsrc, int len, int all_positions)
{
        void *arr[MAXS + 2];
        int pl, ret = 0, faulted, nx = pq ? 2 : 1, j, i, step;
        for (pl = 0; pl < 3; pl++) {
                place(arr, nsrc, nx, len, pl);
                memcpy(arr[nsrc], eP, len);
                if (pq)
                        memcpy(arr[nsrc + 1], eQ, len);
                faulted = 0;
                VH_TRY { ret = f->f(nsrc + nx, len, arr); }
                VH_CATCH { faulted = 1; }
                VH_DONE;
                calls++;
                if (faulted) {
                        report("fault", f->name, nsrc + nx, len, pl, 0, 0);
                        continue;
                }
                if (ret != 0)
                        report("consistent-array-rejected", f->name, nsrc + nx, len, pl, ret, 0);
                check_common(f->name, arr, nsrc, nx, len, pl);
                if (pl != VH_END && !(pl == VH_MID && all_positions))
                        continue;
                /* single-byte corruption at every (block, position) -- or a sample */
                step = all_positions ? 1 : 37;
                for (j = 0; j < nsrc + nx; j += (nsrc > 20 && !(j < 3 || j > nsrc - 3)) ? 9 : 1)
                        for (i = (j * 7) % step; i < len; i += step) {
                                unsigned char *b = arr[j], old = b[i];
                                b[i] ^= (unsigned char) (1u << ((i + j) % 8));
                                if ((i + j) % 5 == 0)
                                        b[i] = old ^ 0xff;
                                VH_TRY { ret = f->f(nsrc + nx, len, arr); }
                                VH_CATCH { ret = -999; }
                                VH_DONE;
                                calls++;
                                corruptions++;
                                if (ret == -999)
                                        report("fault", f->name, nsrc + nx, len, pl, j, i);
                                else if (ret == 0)
                                        report("corruption-not-detected", f->name, nsrc + nx, len, pl, j, i);
                                b[i] = old;
                        }
        }
}

/* below the documented minimum number of vectors: must return non-zero without touching memory */
static void
below_min(struct fn *f, int minv)
{
        void *arr[8];
        struct vh_region r = vh_region_new(VH_PAGE);
        int v, j, ret = 0, faulted;
        vh_region_free(&r); /* now inaccessible */
        static const int negs[] = { -1, -2, -100, -2147483647 - 1 };
        int vi;
        for (vi = 0; vi < minv + 4; vi++) {
                int lens[] = { 0, 32, 64, 4096 }, li;
                v = vi < minv ? vi : negs[vi - minv]; /* and negative counts: they are below the minimum too */
                for (li = 0; li < 4; li++) {
                        for (j = 0; j < 8; j++)
                                arr[j] = r.lo;
                        faulted = 0;
                        VH_TRY { ret = f->f(v, lens[li], arr); }
                        VH_CATCH { faulted = 1; }
                        VH_DONE;
                        calls++;
                        belowmin++;
                        if (faulted)
                                report("below-minimum-touches-memory", f->name, v, lens[li], 0, 0, 0);
                        else if (ret == 0)
                                report("below-minimum-accepted", f->name, v, lens[li], 0, 0, 0);
                }
        }
}

int
main(int argc, char **argv)
{
        FILE *in = fopen(argv[1], "r");
        int nvec, v, j, len, lenstep = atoi(argv[3]);
        struct fn *f;
        out = fopen(argv[2], "w");
        if (!in || !out)
                return 3;
        vh_init((size_t) 1 << 34);
        for (f = xg; f->name; f++)
                if (f->f)
                        below_min(f, 3);
        for (f = pg; f->name; f++)
                if (f->f)
                        below_min(f, 4);
        for (f = xc; f->name; f++)
                if (f->f)
                        below_min(f, 2);
        for (f = pc; f->name; f++)
                if (f->f)
                        below_min(f, 4);
        nvec = vh_rd(in);
        for (v = 0; v < nvec; v++) {
                vec_id = vh_rd(in);
                S = vh_rd(in);
                N = vh_rd(in);
                for (j = 0; j < S; j++)
                        src[j] = vh_rd_bytes(in, N);
                eP = vh_rd_bytes(in, N);
                eQ = vh_rd_bytes(in, N);
                for (j = 0; j < S + 2; j++)
                        reg[j] = vh_region_new(N + 512);
                for (len = 0; len <= N; len += (len < 300 || len > N - 40) ? 1 : lenstep) {
                        for (f = xg; f->name; f++)
                                if (f->f)
                                        gen_tests(f, 0, S, len);
                        for (f = xc; f->name; f++)
                                if (f->f)
                                        check_tests(f, 0, S, len, len <= 288 && S <= 16 && (len % 3 == 0 || len < 70));
                        if (len % 32 == 0)
                                for (f = pg; f->name; f++)
                                        if (f->f)
                                                gen_tests(f, 1, S, len);
                        if (len % 16 == 0)
                                for (f = pc; f->name; f++)
                                        if (f->f)
                                                check_tests(f, 1, S, len, len <= 288 && S <= 16);
                }
                for (j = 0; j < S; j++)
                        free(src[j]);
                for (j = 0; j < S + 2; j++)
                        vh_region_free(&reg[j]);
                free(eP);
                free(eQ);
        }
        fprintf(out, "{\"e\":\"summary\",\"calls\":%ld,\"mismatches\":%ld,\"faults\":%ld,\"corruptions\":%ld,\"below_min_calls\":%ld}\n", calls, mism, vh_faults,
                corruptions, belowmin);
        fclose(out);
        return 0;
}
